"""Workbook model -> .xlsx -> Parser -> source -> class -> Executor, with outcome classification.

A workbook model is JSON-able:
    {"sheets": [{"title": "S", "cells": {"A1": <value>, ...}}, ...]}
values: int | float | bool | str (a str starting with '=' is a formula) | None
        | {"$dt": iso} datetime | {"$d": iso} date | {"$arr": [ref, text]} ArrayFormula
"""
import datetime
import itertools
import os
import signal
import sys

from . import env

env.setup_path()

import openpyxl  # noqa: E402
from openpyxl.utils import get_column_letter, column_index_from_string  # noqa: E402
from openpyxl.worksheet.formula import ArrayFormula  # noqa: E402

import excel2pycl  # noqa: E402
from excel2pycl import Parser, Executor, Cell, E2PyclException  # noqa: E402

_counter = itertools.count()


class Timeout(BaseException):
    pass


class alarm:
    def __init__(self, seconds):
        self.seconds = seconds

    def _h(self, *_):
        raise Timeout()

    def __enter__(self):
        import threading
        self.active = threading.current_thread() is threading.main_thread()   # signals only work there
        if self.active:
            self.old = signal.signal(signal.SIGALRM, self._h)
            signal.setitimer(signal.ITIMER_REAL, self.seconds)

    def __exit__(self, *a):
        if self.active:
            signal.setitimer(signal.ITIMER_REAL, 0)
            signal.signal(signal.SIGALRM, self.old)
        return False


CALL_TIMEOUT = float(os.environ.get('VF_CALL_TIMEOUT', '30'))


STACK_ROOM = 1000


def _stack_depth():
    f = sys._getframe(1)
    n = 0
    while f is not None:
        n += 1
        f = f.f_back
    return n


def outcome(fn, *a, timeout=None, **kw):
    """('value', v) | ('lib', ExcName, msg) | ('foreign', ExcName, msg) | ('timeout',)
    The product always gets the same stack room (STACK_ROOM frames below the call), whatever called the harness: whether a
    deep formula hits the recursion limit must not depend on search vs replay."""
    import threading
    main = threading.current_thread() is threading.main_thread()
    old_limit = sys.getrecursionlimit()
    if main:    # the limit is process-wide: worker threads of the C09 lane leave it alone
        sys.setrecursionlimit(_stack_depth() + STACK_ROOM)
    try:
        with alarm(timeout or CALL_TIMEOUT):
            return ('value', fn(*a, **kw))
    except Timeout:
        return ('timeout',)
    except (KeyboardInterrupt, SystemExit, env.HarnessError):
        raise
    except E2PyclException as e:
        return ('lib', type(e).__name__, str(e)[:300])
    except BaseException as e:  # noqa
        return ('foreign', type(e).__name__, str(e)[:300])
    finally:
        if main:
            sys.setrecursionlimit(old_limit)


def enc(v):
    if isinstance(v, datetime.datetime):
        return {'$dt': v.isoformat()}
    if isinstance(v, datetime.date):
        return {'$d': v.isoformat()}
    if isinstance(v, datetime.time):
        return {'$t': v.isoformat()}
    if isinstance(v, datetime.timedelta):
        return {'$td': v.total_seconds()}
    return v


def dec(v):
    if isinstance(v, dict):
        if '$dt' in v:
            return datetime.datetime.fromisoformat(v['$dt'])
        if '$d' in v:
            return datetime.date.fromisoformat(v['$d'])
        if '$t' in v:
            return datetime.time.fromisoformat(v['$t'])
        if '$td' in v:
            return datetime.timedelta(seconds=v['$td'])
        if '$arr' in v:
            return ArrayFormula(v['$arr'][0], v['$arr'][1])
        if '$table' in v:
            # a what-if data table ({=TABLE(..)}): the reader hands it over as an object of its own
            from openpyxl.worksheet.formula import DataTableFormula
            return DataTableFormula(ref=v['$table'][0], r1=v['$table'][1], dt2D=False)
    return v


def a1(col: int, row: int) -> str:
    return f'{get_column_letter(col)}{row}'


def split_a1(addr: str):
    i = 0
    while i < len(addr) and addr[i].isalpha():
        i += 1
    return column_index_from_string(addr[:i]), int(addr[i:])


def new_path(suffix='.xlsx') -> str:
    return os.path.join(env.tmpdir(), f'w{next(_counter)}{suffix}')


def write_xlsx(model, path=None) -> str:
    path = path or new_path()
    wb = openpyxl.Workbook()
    wb.remove(wb.active)
    raw = {}
    charts = []
    for sh in model['sheets']:
        if sh.get('chart'):
            # a chart sheet: it has a title and a place among the tabs, but no cells
            charts.append(wb.create_chartsheet(sh['title']))
            continue
        ws = wb.create_sheet(sh['title'])
        for addr, v in sh['cells'].items():
            if v is None:
                continue
            if isinstance(v, dict) and '$rawnum' in v:
                # a number text that openpyxl would not write itself (an integer beyond the doubles, 1E+999, ...): a unique
                # placeholder is written and replaced inside the sheet xml afterwards
                ph = 9_100_000_000_000 + len(raw)
                raw[str(ph)] = v['$rawnum']
                ws[addr] = ph
                continue
            ws[addr] = dec(v)
        if sh.get('dimension'):
            # a stale / understated <dimension> record (other writers leave such records behind): readers must not trust it
            ws.calculate_dimension = (lambda d: (lambda *a, **k: d))(sh['dimension'])
    for cs in charts:
        # a chart sheet without a chart is a file that openpyxl itself cannot read back
        from openpyxl.chart import BarChart, Reference
        chart = BarChart()
        chart.add_data(Reference(wb.worksheets[0], min_col=1, min_row=1, max_col=1, max_row=2))
        cs.add_chart(chart)
    wb.save(path)
    if raw:
        import zipfile
        tmp = path + '.raw'
        with zipfile.ZipFile(path) as zin, zipfile.ZipFile(tmp, 'w', zipfile.ZIP_DEFLATED) as zout:
            for item in zin.infolist():
                data = zin.read(item.filename)
                if item.filename.startswith('xl/worksheets/'):
                    text = data.decode('utf-8')
                    for ph, num in raw.items():
                        text = text.replace(f'<v>{ph}</v>', f'<v>{num}</v>')
                    data = text.encode('utf-8')
                zout.writestr(item, data)
        os.replace(tmp, path)
    return path


def parser_for(path, entry=None, safety=False) -> Parser:
    p = Parser().set_excel_file_path(path)
    p.enable_safety_check() if safety else p.disable_safety_check()
    if entry is not None:
        p.set_entrypoint_cell(Cell(*entry))
    return p


def translate_path(path, entry=None, safety=False) -> str:
    return parser_for(path, entry, safety).get_translation()


MAX_SOURCE = int(os.environ.get('VF_MAX_SOURCE', str(12_000_000)))


def load_source(src: str):
    # compile() of a text of tens of megabytes runs for minutes inside one C call that no alarm can interrupt: such a text
    # is handled like a timeout (inconclusive), the properties that care about sizes judge them on their own
    if len(src) > MAX_SOURCE:
        raise Timeout()
    ns = {}
    exec(compile(src, '<excel2pycl-generated>', 'exec'), ns)
    return ns['ExcelInPython']


def load_file(src: str):
    if len(src) > MAX_SOURCE:
        raise Timeout()
    path = new_path('.py')
    with open(path, 'w', encoding='utf-8') as f:
        f.write(src)
    try:
        return excel2pycl.load_module(path).ExcelInPython
    finally:
        try:
            os.unlink(path)
        except OSError:
            pass


class Tr:
    """A translated workbook: source text + class object + helpers to query it."""

    def __init__(self, src, cls):
        self.src = src
        self.cls = cls

    def executor(self) -> Executor:
        return Executor().set_executed_class(class_object=self.cls)

    def get(self, title, col, row, ex=None):
        """Value of one cell (A1-style strings or 0-based ints), as an outcome tuple."""
        ex = ex or self.executor()
        return outcome(lambda: ex.get_cell(Cell(title, col, row)).value)


def translate_model(model, entry=None, safety=False, keep=False):
    """outcome tuple whose value is a Tr; translation+load both inside the classified region.
    A SyntaxError at load shows up as ('foreign','SyntaxError',..)."""
    path = write_xlsx(model)
    try:
        def go():
            src = translate_path(path, entry, safety)
            return Tr(src, load_source(src))
        return outcome(go)
    finally:
        if not keep:
            try:
                os.unlink(path)
            except OSError:
                pass


def eval_formulas(base_sheets, formulas, sheet='S', first_col=27, ncols=8, overrides=None, mode='whole', on=None):
    """Evaluate many formulas placed in a dense block of `sheet` (columns first_col..), one workbook.

    Returns list of outcome tuples, one per formula.  On a whole-file translation
    failure every formula is re-run alone through entry-point translation so that
    one bad formula cannot hide the others.  `overrides`: list of (title,col,row,value)."""
    model = {'sheets': [dict(title=s['title'], cells=dict(s['cells'])) for s in base_sheets]}
    # on[i]: title of the sheet that holds formula i (default: `sheet`); every sheet has its own dense block
    by_title = {s['title']: s for s in model['sheets']}
    addrs = []
    homes = []
    counters = {}
    for i, f in enumerate(formulas):
        home = on[i] if on is not None and on[i] is not None else sheet
        k = counters.get(home, 0)
        counters[home] = k + 1
        addr = a1(first_col + k % ncols, 1 + k // ncols)
        if addr in by_title[home]['cells']:
            raise env.HarnessError(f'formula block overlaps data at {home}!{addr}')
        by_title[home]['cells'][addr] = f
        addrs.append(addr)
        homes.append(home)
    path = write_xlsx(model)
    try:
        def whole():
            src = translate_path(path)
            return Tr(src, load_source(src))
        o = outcome(whole, timeout=CALL_TIMEOUT * 4) if mode == 'whole' else ('skipped',)
        res = []
        if o[0] == 'value':
            tr = o[1]
            before = None
            if overrides:
                # executors on one class object are independent: one without overrides is evaluated before the overriding one
                # exists and another one after it has been used; both must see the plain workbook
                shadow = tr.executor()
                before = [tr.get(home, get_column_letter(split_a1(addr)[0]), str(split_a1(addr)[1]), shadow) for addr, home in zip(addrs, homes)]
            ex = tr.executor()
            if overrides and (len(formulas) + len(overrides)) % 2 == 0:
                # every second case: the executor has a past.  The same cells are first set to other contents (a value that is equal
                # but of another type where there is one: 1 <-> TRUE, 0 <-> FALSE) and everything is evaluated once; what is reported
                # afterwards must be a function of the overrides that hold then, not of what was computed before
                def decoy(v):
                    if isinstance(v, bool):
                        return int(v)
                    if isinstance(v, int) and v in (0, 1):
                        return bool(v)
                    if isinstance(v, (int, float)):
                        return v + 1
                    if isinstance(v, str):
                        return v + 'z'
                    return 5
                o_pre = outcome(lambda: ex.set_cells([Cell(t, c, r, decoy(v)) for t, c, r, v in overrides]))
                if o_pre[0] == 'value':
                    for addr, home in zip(addrs, homes):
                        c, r = split_a1(addr)
                        tr.get(home, get_column_letter(c), str(r), ex)
            if overrides:
                def set_all():
                    # every third case hands the cells over in two consecutive calls: what was set first stays set
                    cells_ = [Cell(t, c, r, dec(v)) for t, c, r, v in overrides]
                    if len(cells_) >= 2 and (len(formulas) + len(overrides)) % 3 == 0:
                        ex.set_cells(cells_[:len(cells_) // 2])
                        return ex.set_cells(cells_[len(cells_) // 2:])
                    return ex.set_cells(cells_)
                o_set = outcome(set_all)
                if o_set[0] != 'value':
                    # the overrides were refused: that is the outcome of every formula that was to be evaluated under them
                    return [o_set if o_set[0] == 'timeout' else (o_set[0], o_set[1], 'set_cells: ' + str(o_set[2]))] * len(addrs)
            for addr, home in zip(addrs, homes):
                c, r = split_a1(addr)
                res.append(tr.get(home, get_column_letter(c), str(r), ex))
            if before is not None:
                # the executor that was there first is read again (nothing was set on it), then a brand-new one
                for make_witness in (lambda: shadow, tr.executor):
                  witness = make_witness()
                  for i, (addr, home) in enumerate(zip(addrs, homes)):
                    c, r = split_a1(addr)
                    after = tr.get(home, get_column_letter(c), str(r), witness)
                    if show_outcome(after) != show_outcome(before[i]) and 'timeout' not in (after[0], before[i][0]) and 'TODAY' not in str(formulas[i]) \
                            and res[i][0] != 'foreign':
                        res[i] = ('foreign', 'SharedStateBetweenExecutors',
                                  f'an executor without overrides saw {show_outcome(before[i])} before and {show_outcome(after)} after another executor on the same class was given overrides')
            return res
        for addr, home in zip(addrs, homes):
            c, r = split_a1(addr)
            ent = (home, get_column_letter(c), str(r))

            def one():
                src = translate_path(path, entry=ent)
                tr = Tr(src, load_source(src))
                ex = tr.executor()
                if overrides:
                    ex.set_cells([Cell(t, cc, rr, dec(v)) for t, cc, rr, v in overrides])
                return ex.get_cell(Cell(*ent)).value
            res.append(outcome(one))
        return res
    finally:
        try:
            os.unlink(path)
        except OSError:
            pass


def is_blank(v) -> bool:
    return type(v).__name__ == 'EmptyCell'


def show(v):
    """JSON-able rendering of a product value for replay / evidence files."""
    if is_blank(v):
        return {'$blank': True}
    if isinstance(v, (datetime.datetime, datetime.date, datetime.time, datetime.timedelta)):
        return enc(v)
    if isinstance(v, (list, tuple)):
        return [show(x) for x in v]
    if isinstance(v, (int, float, str, bool)) or v is None:
        if isinstance(v, float) and (v != v or v in (float('inf'), float('-inf'))):
            return {'$float': repr(v)}
        return v
    return {'$repr': repr(v)[:200]}


def show_outcome(o):
    if o[0] == 'value':
        return ['value', show(o[1])]
    return list(o)
