"""C13 - IF / IFS / IFERROR choose the right branch and contain errors.

Hypothesis: nests of IF (2/3 args), IFS (1-3 pairs), IFERROR up to depth 5; conditions are references, comparisons
of references or constants; branches are distinct numbers, texts, failing expressions (1/0, a reference to an
error-valued cell) or further nests; the nest is also embedded as an operand / argument of other constructs.
Every truth assignment of the condition cells (true / zero / blank) is enumerated through overrides.
Oracle: vf.ref.formula.Evaluator with lazy IF/IFS/IFERROR semantics.
"""
import itertools

from .. import env
from .. import wbk
from .. import fcase
from ..ref import formula as F
from ..run import hyp_run

ID = 'C13'
LEVEL = 'exploration'
BUDGET_S = {'quick': 300, 'thorough': 1500}
RULE = ('one workbook per generated nest (plus embedding variants), evaluated under every assignment of its condition cells '
        'from {1, 0, blank, 5}; a case = (formula, assignment); non-trivial = the nest has depth >= 2 or is embedded in a larger '
        'expression, and some branch that is not taken either fails or has a different value from the one taken; '
        'distinct = distinct (formula text, assignment)')
ASSUMPTIONS = ['IFS with an odd number of arguments and text conditions are not generated',
               'when the chosen branch itself fails, any error outcome (error string or exception) is accepted',
               'nesting depth <= 5']

COND_CELLS = ['A1', 'A2', 'A3', 'A4']
ERR_CELL = 'E1'       # holds #N/A
ERR_CELLS = {'E1': '#N/A', 'E11': '#DIV/0!', 'E12': '#VALUE!', 'E13': '#REF!', 'E14': '#NAME?', 'E15': '#NUM!', 'E16': '#NULL!'}   # every Excel error value
TEXT_CELL = 'E2'      # holds "hello"
RAISING_CELL = 'E3'   # holds =1/0: reading the cell fails
HASH_TEXT_CELL = 'E4' # holds "#FF0000": a text, not one of Excel's error values
EXCEL_ERRORS = ('#N/A', '#DIV/0!', '#VALUE!', '#REF!', '#NAME?', '#NUM!', '#NULL!')
ASSIGN_VALUES = [1, 0, None, 5, 1e-13, 0.0]   # None = leave blank (no override); a tiny number is non-zero, hence true; 0.0 is zero


# expressions whose evaluation fails in different ways (the product signals them with different exception classes or
# error values): division by zero, an error-valued cell, a date function of a text, aggregates over ranges of different
# sizes, a lookup column outside the table, arithmetic on a text, an index outside the area, a text that is no number
FAIL_CALLS = [['call', 'YEAR', [['ref', TEXT_CELL]]],
              ['call', 'SUMIFS', [['area', 'A1:A2'], ['area', 'A1:A3'], ['num', '1']]],
              ['call', 'COUNTIFS', [['area', 'A1:A2'], ['num', '1'], ['area', 'A1:A3'], ['num', '1']]],
              ['call', 'VLOOKUP', [['num', '1'], ['area', 'A1:B2'], ['num', '5'], ['bool', False]]],
              ['un', '-', ['ref', TEXT_CELL]],
              ['call', 'ROUND', [['ref', TEXT_CELL], ['num', '1']]],
              ['call', 'INDEX', [['area', 'A1:B2'], ['num', '5'], ['num', '5']]],
              ['call', 'VALUE', [['ref', TEXT_CELL]]]]


def is_fail(node):
    return (node[0] == 'bin' and node[1] == '/' and node[3] == ['num', '0']) or node in [['ref', c] for c in ERR_CELLS] + [['ref', RAISING_CELL]] or node in FAIL_CALLS


def nest_depth(ast):
    k = ast[0]
    kids = []
    if k == 'call':
        kids = ast[2]
    elif k == 'bin':
        kids = [ast[2], ast[3]]
    elif k == 'un':
        kids = [ast[2]]
    elif k in ('pct', 'par'):
        kids = [ast[1]]
    d = max([nest_depth(x) for x in kids], default=0)
    return d + (1 if k == 'call' and ast[1] in ('IF', 'IFS', 'IFERROR') else 0)


def triggers(ast):
    t = set()
    for n in F.walk(ast):
        if n[0] == 'call' and n[1] == 'IFS':
            if any(is_fail(d) or (d[0] == 'call' and d[1] in ('IFS',)) for a in n[2] for d in F.walk(a)):
                t.add('ifs-eager')
            # IFS also flattens list values and treats '#...' texts among *conditions* as errors - same root cause
        if n[0] == 'call' and n[1] == 'IFERROR':
            if any(is_fail(d) for d in F.walk(n[2][1])):
                t.add('iferror-fallback-eager')
            if any(d[0] == 'call' and d[1] == 'IFS' for d in F.walk(n[2][1])):
                t.add('iferror-fallback-eager')
    return t


def f_round(e, args):
    import decimal
    x = F.to_num(e.ev(args[0]))
    n = F.to_num(e.ev(args[1]))
    return float(decimal.Decimal(repr(float(x))).quantize(decimal.Decimal(1).scaleb(-int(n)), rounding=decimal.ROUND_HALF_UP))


def f_left(e, args):
    t = e.ev(args[0])
    if isinstance(t, F.Err):
        raise F._ErrSignal(t)
    if not isinstance(t, str) or t == '':
        raise F.OutOfDomain('LEFT of non-text')
    n = F.to_num(e.ev(args[1]))
    if isinstance(n, float) and n != int(n):
        raise F.OutOfDomain('fractional count')
    return t[:int(n)]


def _fails(code):
    def f(e, args):
        raise F._ErrSignal(F.Err(code))
    return f


def f_round_or_fail(e, args):
    if args[0] == ['ref', TEXT_CELL]:
        raise F._ErrSignal(F.Err('#VALUE!'))
    return f_round(e, args)


# the failing call shapes of FAIL_CALLS are the only uses of these functions in generated nests
EXTRA = {'ROUND': f_round_or_fail, 'LEFT': f_left, 'YEAR': _fails('#VALUE!'), 'SUMIFS': _fails('#VALUE!'), 'COUNTIFS': _fails('#VALUE!'),
         'VLOOKUP': _fails('#REF!'), 'INDEX': _fails('#REF!'), 'VALUE': _fails('#VALUE!')}


def make_env(assign, base_cells):
    def envf(ref):
        if ref in assign and assign[ref] is not None:
            return assign[ref]
        v = base_cells.get(ref)
        if ref in assign and assign[ref] is None and ref in COND_CELLS:
            v = None
        if v is None:
            return F.BLANK
        if isinstance(v, str) and v in EXCEL_ERRORS:
            return F.Err(v)
        if v == '=1/0':
            raise F._ErrSignal(F.Err('#DIV/0!'))
        return v
    return envf


class FailAware(F.Evaluator):
    def ev(self, node):
        if node in FAIL_CALLS:
            raise F._ErrSignal(F.Err('#VALUE!'))
        return super().ev(node)


def taken_info(ast, envf):
    """-> (reference value or Err, set of node ids evaluated) using an instrumented evaluator."""
    seen = []

    class Ev(FailAware):
        def ev(self, node):
            seen.append(id(node))
            return super().ev(node)
    v = Ev(envf, EXTRA).value(ast)
    return v, set(seen)


def untaken_differs(ast, envf, value, seen):
    """Is there a branch that was not evaluated and either fails or would give another value?"""
    for n in F.walk(ast):
        if n[0] == 'call' and n[1] in ('IF', 'IFS', 'IFERROR') and id(n) in seen:
            for a in n[2]:
                if id(a) not in seen:
                    if any(is_fail(d) for d in F.walk(a)):
                        return True
                    try:
                        v = FailAware(envf, EXTRA).value(a)
                    except F.OutOfDomain:
                        return True
                    if isinstance(v, F.Err) or type(v) is not type(value) or v != value:
                        return True
    return False


BASE_CELLS = {**ERR_CELLS, TEXT_CELL: 'hello', RAISING_CELL: '=1/0', HASH_TEXT_CELL: '#FF0000'}


def run_spec(spec, rec=None):
    asts = spec['asts']
    used = sorted({n[1] for a in asts for n in F.walk(a) if n[0] == 'ref' and n[1] in COND_CELLS})
    formulas = [F.render(a) for a in asts]
    cells = dict(BASE_CELLS)
    for c in used:
        if spec.get('const', {}).get(c) is not None:
            cells[c] = spec['const'][c]   # a workbook constant the override must beat (blank assignment keeps it!)
    path_model = {'sheets': [{'title': 'S', 'cells': {**cells, **{wbk.a1(8 + i, 1): f for i, f in enumerate(formulas)}}}]}
    o = wbk.translate_model(path_model)
    fails = []
    if o[0] != 'value':
        if o[0] == 'timeout':
            if rec:
                rec.count('translation_timeout')
            return []
        # isolate the formula that breaks translation
        for i, (a, f) in enumerate(zip(asts, formulas)):
            o1 = wbk.translate_model({'sheets': [{'title': 'S', 'cells': {**cells, 'H1': f}}]})
            if o1[0] not in ('value', 'timeout'):
                trig = sorted(triggers(a))
                fails.append({'case': {'asts': [a], 'const': spec.get('const', {})}, 'expected': 'a translation', 'actual': wbk.show_outcome(o1),
                              'relation': 'lazy-reference-evaluator', 'bucket': f'translate:raises:{o1[1]}',
                              'extra': {'formula': f, 'triggers': trig}})
        return fails
    tr = o[1]
    combos = list(itertools.product(ASSIGN_VALUES, repeat=len(used)))
    if len(combos) > 64:
        combos = combos[::len(combos) // 64 + 1]
    for combo in combos:
        assign = dict(zip(used, combo))
        ex = tr.executor()
        ov = [wbk.Cell('S', c[0], c[1:], v) for c, v in assign.items() if v is not None]
        o_set = wbk.outcome(lambda: ex.set_cells(ov)) if ov else ('value', None)
        # a blank assignment means "no override": the workbook constant (if any) applies
        envf = make_env({c: v for c, v in assign.items() if v is not None}, cells)
        for i, (a, f) in enumerate(zip(asts, formulas)):
            try:
                exp, seen = taken_info(a, envf)
                if isinstance(exp, (int, float)) and not isinstance(exp, bool) and abs(exp) > 1e12:
                    raise F.OutOfDomain('magnitude')
            except F.OutOfDomain:
                if rec:
                    rec.count('skipped_outside_domain')
                continue
            if isinstance(exp, F.Err) and not (a[0] == 'call' and a[1] in ('IF', 'IFS', 'IFERROR')):
                # how an error value travels through other operators / functions is not C13's statement
                if rec:
                    rec.count('skipped_error_through_embedding')
                continue
            out = tr.get('S', wbk.get_column_letter(8 + i), '1', ex) if o_set[0] == 'value' else o_set
            trig = sorted(triggers(a))
            if rec:
                root = a
                embedded = not (root[0] == 'call' and root[1] in ('IF', 'IFS', 'IFERROR'))
                nt = (nest_depth(a) >= 2 or embedded) and untaken_differs(a, envf, exp, seen)
                rec.case({'f': f, 'assign': assign, 'const': spec.get('const', {})}, nt,
                         ['lane:' + ('finding' if trig else 'clean'), f'depth:{nest_depth(a)}', 'embedded' if embedded else 'bare',
                          'expects:' + ('error' if isinstance(exp, F.Err) else 'value')] +
                         sorted({'has:' + n[1] for n in F.walk(a) if n[0] == 'call'}) + [f'trig:{t}' for t in trig],
                         sample={'formula': f, 'assignment': assign, 'expected': F.show_ref(exp)})
            e2 = exp
            if isinstance(exp, F.Err) and not (exp.code == '#N/A' and a[0] == 'call' and a[1] == 'IFS'):
                e2 = fcase.ANY_ERR
            ok, why = fcase.agrees(e2, out)
            if not ok:
                head = a[1] if a[0] == 'call' else 'embedded'
                fails.append({'case': {'asts': [a], 'const': spec.get('const', {}), 'assign': assign},
                              'expected': fcase.show_expected(e2), 'actual': wbk.show_outcome(out),
                              'relation': 'lazy-reference-evaluator',
                              'bucket': f'{head}:' + ('raises:' + out[1] if out[0] != 'value' else 'value') + (':' + '+'.join(trig) if trig else ''),
                              'extra': {'formula': f, 'triggers': trig, 'why': why}})
    return fails


def run_case(case):
    spec = {'asts': case['asts'], 'const': case.get('const', {})}
    fails = run_spec(spec)
    if 'assign' in case:
        same = [f for f in fails if f['case'].get('assign') == case['assign']]
        return same or fails
    return fails


# ------------------------------------------------------------------ generator

def strategy():
    from hypothesis import strategies as st
    counter = itertools.count(11)
    ref = st.sampled_from(COND_CELLS).map(lambda r: ['ref', r])
    cond = st.one_of(ref, ref, ref,
                     st.tuples(st.sampled_from(['>', '=', '<>', '>=']), ref, st.sampled_from(['0', '1'])).map(
                         lambda t: ['bin', t[0], t[1], ['num', t[2]]]),
                     st.sampled_from([['num', '0'], ['num', '1'], ['num', '2'], ['bool', True], ['bool', False]]),
                     # a zero is a zero however it is spelt, and a tiny number is not zero
                     st.sampled_from([['num', '0.0'], ['num', '0.00'], ['num', '0e0'], ['num', '0.50'], ['num', '1e-15'], ['num', '2.5e-14'], ['num', '1e0'],
                                      ['bin', '*', ['num', '1e-8'], ['num', '1e-8']], ['un', '-', ['num', '0.0']]]))
    fail = st.sampled_from([['bin', '/', ['num', '1'], ['num', '0']], ['ref', ERR_CELL], ['ref', RAISING_CELL]] * 2 + [['ref', c] for c in ERR_CELLS] + FAIL_CALLS)
    # a condition whose evaluation fails (it must not be touched once an earlier condition has decided)
    failcond = st.sampled_from([['bin', '>', ['bin', '/', ['num', '10'], ['num', '0']], ['num', '1']], ['bin', '>', ['ref', RAISING_CELL], ['num', '0']],
                                ['bin', '=', ['call', 'YEAR', [['ref', TEXT_CELL]]], ['num', '1']]])
    number = st.integers(2, 99).map(lambda n: ['num', str(n)])
    leafval = st.one_of(number, number, number, fail, ref, st.sampled_from([['str', 'yes'], ['str', 'no'], ['str', '#FF0000'], ['str', '#7'], ['ref', HASH_TEXT_CELL],
                                                                            ['bool', True], ['bool', False], ['bool', True], ['num', '0'], ['num', '1']]))

    def nest(child):
        pair = st.tuples(cond, child)
        return st.one_of(
            st.tuples(cond, child, child).map(lambda t: ['call', 'IF', list(t)]),
            st.tuples(cond, child, child).map(lambda t: ['call', 'IF', list(t)]),
            # a condition whose evaluation fails (through a cell that fails, or inline): IF fails, it does not pick a branch
            st.tuples(failcond, child, child).map(lambda t: ['call', 'IF', list(t)]),
            st.tuples(cond, child).map(lambda t: ['call', 'IF', list(t)]),
            st.lists(pair, min_size=1, max_size=3).map(lambda ps: ['call', 'IFS', [x for p in ps for x in p]]),
            st.tuples(st.lists(pair, min_size=1, max_size=2), failcond, child).map(lambda t: ['call', 'IFS', [x for p in t[0] for x in p] + [t[1], t[2]]]),
            st.tuples(st.one_of(child, fail), child).map(lambda t: ['call', 'IFERROR', list(t)]))
    d1 = nest(leafval)
    d2 = nest(st.one_of(leafval, d1))
    d3 = nest(st.one_of(leafval, d1, d2))
    d4 = nest(st.one_of(leafval, d2, d3))
    d5 = nest(st.one_of(leafval, d3, d4))
    anynest = st.one_of(d1, d2, d2, d3, d3, d4, d5)

    def embed(n, how):
        if how == 0:
            return n
        if how == 1:
            return ['bin', '+', ['num', '1'], n]
        if how == 2:
            return ['bin', '*', n, ['num', '2']]
        if how == 3:
            return ['bin', '&', n, ['str', 'x']]
        if how == 4:
            return ['bin', '>', n, ['num', '3']]
        if how == 5:
            return ['un', '-', n]
        if how == 6:
            return ['pct', n]
        if how == 7:
            return ['call', 'SUM', [n, ['num', '1']]]
        if how == 8:
            return ['call', 'ROUND', [n, ['num', '0']]]
        if how == 9:
            return ['bin', '*', ['num', '2'], ['par', ['bin', '+', n, ['num', '1']]]]
        if how == 10:
            return ['call', 'LEFT', [['call', 'IF', [['ref', 'A1'], ['str', 'abcdef'], ['ref', TEXT_CELL]]], n]]
        return n
    one = st.tuples(anynest, st.sampled_from([0, 0, 0, 1, 2, 3, 4, 5, 6, 7, 8, 9, 10])).map(lambda t: embed(*t))
    const = st.dictionaries(st.sampled_from(COND_CELLS), st.sampled_from([7, 0, None]), max_size=2)
    return st.tuples(st.lists(one, min_size=3, max_size=6), const).map(lambda t: {'asts': t[0], 'const': t[1]})


NSHARD = 16


def plan(tier):
    n = 400 if tier == 'quick' else 5000
    return [{'kind': 'hyp', 'shard': i, 'examples': n} for i in range(NSHARD)]


def run_shard(spec, rec):
    def body(s):
        for f in run_spec(s, rec):
            rec.fail(**f)
    hyp_run(strategy(), body, spec['examples'], ('c13', spec['shard']), rec)


def shrink_candidates(case):
    a = case['asts'][0]
    for s in F.subtrees_smaller(a):
        yield {**case, 'asts': [s]}
    if case.get('const'):
        yield {**case, 'const': {}}


def _trig(f, name):
    return name in ((f.get('extra') or {}).get('triggers') or [])


def _error_outcome(f):
    a = f['actual']
    return a[0] in ('foreign',) or (a[0] == 'value' and isinstance(a[1], str) and a[1].startswith('#'))


MATCHERS = {
    'c13_ifs_eager': lambda f: _trig(f, 'ifs-eager') and _error_outcome(f),
    'c13_iferror_fallback_eager': lambda f: _trig(f, 'iferror-fallback-eager') and _error_outcome(f),
}
