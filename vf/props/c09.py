"""C09 - translation output depends only on the current workbook and settings.

(a) Hypothesis RuleBasedStateMachine on one Parser over a pool of workbooks (two that differ in one constant, one with permuted
    sheet order, one with a suspicious cell, one with a malformed formula): set path / set-replace-clear entry cell (fresh Cell,
    A1-style or numeric) / enable-disable safety / get / write / repeated gets.  Oracle: a fresh Parser configured with the same
    final settings; two gets without a setter in between are identical; written file == returned text.
(b) process matrix: pool workbook x entry setting translated in child processes under several PYTHONHASHSEED values, cold and after
    other translations in the same process: sha256 of the text must be identical.
(c) threads: cold child processes start 8 threads behind a barrier (switch interval 1 us), each translating pool workbooks.
"""
import hashlib
import json
import os
import subprocess
import sys

from .. import env
from .. import wbk

ID = 'C09'
LEVEL = 'exploration'
BUDGET_S = {'quick': 300, 'thorough': 1800}
RULE = ('(a) stateful facade histories of <= 15 calls, every get/write compared with a fresh Parser; a case = one history; non-trivial = '
        '>= 2 gets separated by a setter that changes the expected outcome (other path content, other entry, safety flip on the suspicious '
        'workbook); (b)/(c) a case = one (workbook, entry, hash seed / process history / thread run) translation whose sha256 is compared '
        'with the in-process one; distinct = distinct history / job JSON')
ASSUMPTIONS = ['a change of the file content without a setter call is not generated',
               'threads: lane "threads" samples interleavings (8 barrier-released threads, 1 us switch interval); lane "sched" owns the schedule at the granularity of calls into package functions (a switch inside one function body is not generated)']


def pool_models():
    base = {'sheets': [{'title': 'S', 'cells': {'A1': 1, 'B1': 2, 'C1': '=A1+B1', 'A2': 5, 'C2': '=SUM(A1:B2)', 'D1': '=T!A1*2', 'D2': '=IF(A1>0,C1,C2)'}},
                       {'title': 'T', 'cells': {'A1': 10, 'B1': '=A1+S!A2', 'B2': 'text'}}]}
    # one formula of every function family (several ranges / criteria per call): whatever a translator collects in a set or a
    # dict keyed by objects shows as a text that depends on the hash seed
    sink = {'A1': 3, 'A2': 1, 'A3': 2, 'B1': 'pear', 'B2': 'fig', 'B3': 'pear', 'C1': {'$dt': '2021-03-15T00:00:00'}, 'C2': {'$dt': '2022-11-30T00:00:00'},
            'D1': '=SUMIFS(A1:A3,A1:A3,">0",B1:B3,"pear",A1:A3,"<9")', 'D2': '=COUNTIFS(A1:A3,">0",B1:B3,"p*",A1:A3,"<>5",B1:B3,"<>fig")',
            'D3': '=AVERAGEIFS(A1:A3,B1:B3,"pear",A1:A3,">=1",A1:A3,"<=3")', 'D4': '=SUMIF(B1:B3,"pear",A1:A3)+SUM(A1:A3,A1:A2,A3)',
            'D5': '=VLOOKUP(2,A1:B3,2,FALSE)&INDEX(B1:B3,MATCH(1,A1:A3,0))', 'D6': '=IFS(A1>5,1,A2>5,2,TRUE,3)+IFERROR(1/0,IF(A1,2,3))',
            'D7': '=ROUND(A1/3,2)+ROUNDUP(A2/3,1)+ROUNDDOWN(A3/7,3)+MAX(A1:A3,7)-MIN(A1:A3)', 'D8': '=DATEDIF(C1,C2,"M")+NETWORKDAYS(C1,C2,C1:C2)+YEAR(EDATE(C1,3))',
            'D9': '=LEFT(B1,2)&MID(B2,1,1)&RIGHT(B3,3)&CONCATENATE(A1,"-",A2)&SEARCH("e",B1)', 'D10': '=AND(A1>0,A2>0,A3>0)=OR(A1>2,A2>2)',
            'D11': '=COUNT(A1:A3,B1:B3,5)+COUNTBLANK(A1:B4)+XMATCH(2,A1:A3,0,-1)', 'D12': '=ADDRESS(2,3)&TEXT(A1,"0")&VALUE("12")&COLUMN(B2)'}
    # criteria that a lenient date parser completes from today's date, an array formula (an object of its own for the reader)
    sink['D13'] = '=COUNTIFS(B1:B3,"May")+SUMIF(B1:B3,"9:30",A1:A3)+COUNTIFS(B1:B3,"1/5")+COUNTIFS(C1:C2,">Sat")'
    sink['D14'] = {'$arr': ['D14:D14', '=SUM(A1:A3)*2']}
    # several different whole-column areas and a back-to-front area in one formula (helpers that belong to no single cell)
    sink['E1'] = '=SUMIF(A:A,">1",B:B)+SUM(C:C)+COUNT(B:B,A:A)+SUM(B2:A1)+COUNTBLANK(C:C)'
    base['sheets'].append({'title': 'K', 'cells': sink})
    w1 = json.loads(json.dumps(base))
    w1['sheets'][0]['cells']['A1'] = 3                   # differs in one constant
    w2 = {'sheets': [base['sheets'][1], base['sheets'][0]]}  # permuted sheet order
    w3 = json.loads(json.dumps(base))
    w3['sheets'][1]['cells']['C3'] = 'eval(1)'            # suspicious cell
    w4 = json.loads(json.dumps(base))
    w4['sheets'][0]['cells']['E1'] = '=1+'                # malformed formula (whole-file translation must fail, entry C1 must not)
    w4['sheets'][0]['cells']['E2'] = '=NOSUCH(1)'
    # a chain of 400 formulas each referring to the next row: deeper than the default interpreter stack, so the outcome is the
    # parser exception - in every thread and process alike (a translation must not change process-wide limits under others)
    deep = {'A1': 1, 'C1': '=B1*2'}
    for i in range(1, 401):
        deep[f'B{i}'] = f'=B{i + 1}+1' if i < 400 else '=A1'
    w5 = {'sheets': [{'title': 'S', 'cells': deep}, {'title': 'T', 'cells': {'A1': 10, 'B1': '=A1+S!A1', 'B2': 'text'}}]}
    # chart sheets between and behind the worksheets (they have titles, no cells)
    w6 = {'sheets': [base['sheets'][0], {'title': 'Chart1', 'chart': True}, base['sheets'][1], base['sheets'][2], {'title': 'Chart2', 'chart': True}]}
    # worksheets without a single cell: a translation without any method
    w7 = {'sheets': [{'title': 'S', 'cells': {}}, {'title': 'T', 'cells': {}}]}
    return [base, w1, w2, w3, w4, w5, w6, w7]


ENTRIES = [None, ['K', 'E', '1'], ['K', 'D', '1'], ['K', 'D', '2'], ['S', 'C', '1'], ['S', 'C', '2'], ['S', 'D', '1'], ['T', 'B', '1'], [0, 2, 0], [1, 1, 0], ['S', 'D', '2'], ['S', 'E', '1'], ['T', 'B', '2']]


def make_pool(dirpath):
    paths = []
    for i, m in enumerate(pool_models()):
        p = os.path.join(dirpath, f'pool{i}.xlsx')
        if not os.path.exists(p):
            wbk.write_xlsx(m, p)
        paths.append(p)
    return paths


def outcome_of(fn):
    o = wbk.outcome(fn)
    if o[0] == 'value':
        return ('text', o[1])
    if os.environ.get('VF_C09_DEBUG') and len(o) > 2:
        sys.stderr.write(f'{o}\n')
    return (o[0], o[1] if len(o) > 1 else '')


def fresh(paths, state):
    def go():
        p = wbk.Parser()
        if state['path'] is not None:
            p.set_excel_file_path(paths[state['path']])
        if state['entry'] is not None:
            p.set_entrypoint_cell(wbk.Cell(*state['entry']))
        p.enable_safety_check() if state['safety'] else p.disable_safety_check()
        return p.get_translation()
    return outcome_of(go)


def show(o):
    if o[0] == 'text':
        return ['text', hashlib.sha256((o[1] or '').encode()).hexdigest()[:16], len(o[1] or '')]
    return list(o)


def replay(history, counter=None):
    try:
        os.unlink(os.path.join(env.tmpdir(), 'generated_module.py'))
    except OSError:
        pass
    paths = make_pool(env.tmpdir())
    parser = wbk.Parser()
    state = {'path': None, 'entry': None, 'safety': True}
    last_get = None
    fails = []
    for n, st in enumerate(history['steps']):
        op = st[0]
        if op == 'path':
            parser.set_excel_file_path(paths[st[1]])
            state['path'] = st[1]
            last_get = None
        elif op == 'entry':
            if st[1] is None:
                # the facade has no "clear" call; a fresh entry is the only way to change it
                continue
            parser.set_entrypoint_cell(wbk.Cell(*st[1]))
            state['entry'] = st[1]
            last_get = None
        elif op == 'safety':
            parser.enable_safety_check() if st[1] else parser.disable_safety_check()
            state['safety'] = st[1]
            last_get = None
        else:
            if state['path'] is None and False:
                continue
            if op == 'get':
                got = outcome_of(parser.get_translation)
            else:
                # the same target every time, like a build step that regenerates one module
                out = os.path.join(env.tmpdir(), 'generated_module.py')

                def w(bare=n % 2 == 0):
                    # every second time the target is named without a directory (relative to the current one), like `parser.write_translation('generated_module.py')`
                    here = os.getcwd()
                    try:
                        if bare:
                            os.chdir(os.path.dirname(out))
                        parser.write_translation(os.path.basename(out) if bare else out)
                    finally:
                        os.chdir(here)
                    with open(out, encoding='utf-8') as f:
                        return f.read()
                got = outcome_of(w)
                if got[0] == 'text':
                    ret = outcome_of(parser.get_translation)
                    if ret != got:
                        fails.append({'case': {'steps': history['steps'][:n + 1]}, 'expected': show(ret), 'actual': show(got),
                                      'relation': 'written-file-equals-returned-text', 'bucket': 'write-vs-get'})
                        return fails
            want = fresh(paths, state)
            if counter is not None:
                counter.append(1)
            if 'timeout' in (got[0], want[0]):
                continue
            if got != want:
                what = 'stale-or-wrong-text' if got[0] == 'text' and want[0] == 'text' else f'{got[0]}-instead-of-{want[0]}'
                fails.append({'case': {'steps': history['steps'][:n + 1]}, 'expected': show(want), 'actual': show(got),
                              'relation': 'same-as-fresh-parser', 'bucket': what, 'extra': {'state': dict(state), 'step': n}})
                return fails
            if last_get is not None and got != last_get:
                fails.append({'case': {'steps': history['steps'][:n + 1]}, 'expected': show(last_get), 'actual': show(got),
                              'relation': 'repeated-get-identical', 'bucket': 'repeat-differs'})
                return fails
            last_get = got
    return fails


def features(history):
    f = set()
    state = {'path': None, 'entry': None, 'safety': True}
    gets = 0
    changed_since_get = set()
    for st in history['steps']:
        if st[0] in ('get', 'write'):
            if gets and changed_since_get:
                f.add('get-after-change')
                f |= {'change:' + c for c in changed_since_get}
            gets += 1
            changed_since_get = set()
            f.add('op:' + st[0])
        elif st[0] == 'path':
            if st[1] != state['path']:
                changed_since_get.add('path')
            state['path'] = st[1]
            f.add(f'wb:{st[1]}')
        elif st[0] == 'entry' and st[1] is not None:
            if st[1] != state['entry']:
                changed_since_get.add('entry')
            state['entry'] = st[1]
            f.add('entry:' + ('numeric' if isinstance(st[1][0], int) else 'a1'))
        elif st[0] == 'safety':
            if st[1] != state['safety'] and state['path'] == 3:
                changed_since_get.add('safety-on-suspicious')
            elif st[1] != state['safety']:
                changed_since_get.add('safety')
            state['safety'] = st[1]
    return f


def is_nontrivial(history):
    f = features(history)
    return 'get-after-change' in f and bool(f & {'change:path', 'change:entry', 'change:safety-on-suspicious'})


# ------------------------------------------------------------------ child jobs (process matrix, threads)

def child_main():
    job = json.load(sys.stdin)
    paths = job['paths']
    out = []
    if job['kind'] == 'sequence':
        for (wi, entry, safety) in job['items']:
            o = fresh(paths, {'path': wi, 'entry': entry, 'safety': safety})
            out.append(show(o))
    elif job['kind'] in ('sched', 'measure'):
        out = run_sched(job, paths)
    else:
        import threading
        sys.setswitchinterval(1e-6)
        n = job['threads']
        barrier = threading.Barrier(n)
        results = [None] * n

        def work(i):
            barrier.wait()
            res = []
            for (wi, entry, safety) in job['items'][i::n] * job.get('repeat', 1):
                res.append([[wi, entry, safety], show(fresh(paths, {'path': wi, 'entry': entry, 'safety': safety}))])
            results[i] = res
        ts = [threading.Thread(target=work, args=(i,)) for i in range(n)]
        for t in ts:
            t.start()
        for t in ts:
            t.join()
        out = results
    json.dump(out, sys.stdout)


def run_sched(job, paths):
    """Translations in threads under a schedule that the harness owns: every call into a function of the package is a possible switch
    point; `schedule` = [[thread, number of such calls to run], ...], a thread whose turn it is not waits at its next call, threads that
    are left over when the schedule is used up run freely.  kind 'measure': the items one after the other, answer = their call counts."""
    import threading
    pkg = os.path.dirname(os.path.abspath(wbk.excel2pycl.__file__)) + os.sep
    items = job['items']
    n = len(items)
    sched = [list(x) for x in job.get('schedule') or []]
    nseg = len(sched)
    # The hook makes no call of a python function (lock methods, sum and len are C): a product under test may leave the interpreter's
    # recursion limit below the depth a parked thread is at, and then every python call in that thread raises - also inside a lock
    # wrapper written in python.  gates[i] is a binary signal "thread i, look again"; only the thread whose turn it is moves `pos`.
    gates = [threading.Lock() for _ in range(n)]
    for g in gates:
        g.acquire()
    state = {'pos': 0}
    done = [False] * n
    counts = [0] * n
    results = [None] * n

    def make_hook(i):
        def hook(frame, event, arg):
            if event != 'call' or not frame.f_code.co_filename.startswith(pkg):
                return
            counts[i] += 1
            if not nseg:
                return
            stalled = 0
            while True:
                while state['pos'] < nseg and done[sched[state['pos']][0]]:
                    state['pos'] += 1
                if state['pos'] >= nseg:
                    return
                seg = sched[state['pos']]
                if seg[0] == i:
                    break
                seen = sum(counts)
                if gates[i].acquire(True, 5):
                    continue
                if sum(counts) == seen:
                    # the thread whose turn it is makes no calls: it may be waiting for something this thread holds (an import lock,
                    # say).  The schedule is given up - everybody runs freely - and the job is marked, not failed
                    stalled += 1
                    if stalled >= 3:
                        state['pos'] = nseg
                        state['stalled'] = True
                        for g in gates:
                            try:
                                g.release()
                            except RuntimeError:
                                pass
                        return
            if seg[1] is not None:
                seg[1] -= 1
                if seg[1] <= 0:
                    state['pos'] += 1
                    for g in gates:
                        if g is not gates[i]:
                            try:
                                g.release()
                            except RuntimeError:
                                pass
        return hook

    def work(i):
        wi, entry, safety = items[i]
        sys.setprofile(make_hook(i))
        try:
            results[i] = show(fresh(paths, {'path': wi, 'entry': entry, 'safety': safety}))
        finally:
            sys.setprofile(None)
            done[i] = True
            for g in gates:
                if g.locked():
                    try:
                        g.release()
                    except RuntimeError:
                        pass
    # every module of the package is imported before the threads start: a thread that is parked in the middle of a lazy import would
    # hold the import lock that the thread whose turn it is needs
    import importlib
    root = os.path.dirname(pkg.rstrip(os.sep))
    for d, _, files in sorted(os.walk(pkg)):
        for fn in sorted(files):
            if fn.endswith('.py'):
                mod = os.path.relpath(os.path.join(d, fn), root)[:-3].replace(os.sep, '.')
                importlib.import_module(mod[:-len('.__init__')] if mod.endswith('.__init__') else mod)
    ts = [threading.Thread(target=work, args=(i,)) for i in range(n)]
    if job['kind'] == 'measure':
        for t in ts:
            t.start()
            t.join()
        return counts
    for t in ts:
        t.start()
    for t in ts:
        t.join()
    return results + ([['stalled']] if state.get('stalled') else [])


def make_schedule(rnd, counts):
    """alternating segments over 2-3 threads; the lengths are fractions of what each translation needs alone"""
    n = len(counts)
    sched = []
    last = None
    for _ in range(rnd.randint(2, 7)):
        t = rnd.choice([x for x in range(n) if x != last])
        frac = rnd.choice([0.0005, 0.002, 0.01, 0.03, 0.1, 0.2, 0.35, 0.5, 0.7, 0.9, 0.99])
        sched.append([t, max(1, int(counts[t] * frac) + rnd.choice([0, 0, 1, 2, 7]))])
        last = t
    # then every thread to its end, one after the other, in a drawn order
    order = list(range(n))
    rnd.shuffle(order)
    sched += [[t, None] for t in order]
    return sched


def run_child(job, hashseed):
    envv = dict(os.environ, PYTHONHASHSEED=str(hashseed), VF_TMP_PARENT=env.tmpdir())
    if job.get('tz'):
        envv['TZ'] = job['tz']     # another local date (26 hours lie between EAST-14 and WEST12): the text must not depend on it
    p = subprocess.run([sys.executable, '-B', '-m', 'vf.props.c09'], input=json.dumps(job), capture_output=True, text=True,
                       cwd=env.VERIF, env=envv, timeout=900)
    if p.returncode != 0:
        raise env.HarnessError(f'C09 child failed (PYTHONHASHSEED={hashseed}): {p.stderr[-2000:]}')
    return json.loads(p.stdout)


def matrix_items():
    items = []
    for wi in range(8):
        for entry in ENTRIES[:8] if wi != 5 else [None, ['S', 'C', '1'], ['S', 'B', '399'], ['T', 'B', '1']]:
            for safety in (False, True) if wi == 3 else (False,):
                items.append([wi, entry, safety])
    return items


def run_case(case):
    if 'steps' in case:
        return replay(case)
    # a process / thread job
    paths = make_pool(env.tmpdir())
    if case['job']['kind'] == 'threads':
        # the interleaving is not the harness' to choose: a divergence seen once is looked for again a few times
        for _ in range(8):
            fs = run_job(case, paths)
            if fs:
                return fs
        return []
    return run_job(case, paths)


def run_job(case, paths):
    job = {**case['job'], 'paths': paths}
    res = run_child(job, case['hashseed'])
    fails = []
    if job['kind'] in ('sequence', 'sched'):
        pairs = list(zip(job['items'], res))
    else:
        pairs = [(it, r) for thread in res for (it, r) in thread]
    for it, r in pairs:
        want = show(fresh(paths, {'path': it[0], 'entry': it[1], 'safety': it[2]}))
        if r != want:
            fails.append({'case': {'job': {k: v for k, v in case['job'].items()}, 'hashseed': case['hashseed']}, 'expected': want, 'actual': r,
                          'relation': 'text-identical-across-' + ('threads' if job['kind'] in ('threads', 'sched') else 'processes-and-hash-seeds'),
                          'bucket': job['kind'] + ':' + ('text-differs' if r[0] == 'text' and want[0] == 'text' else 'outcome-differs'),
                          'extra': {'item': it}})
            break
    return fails


def build_machine(rec):
    from hypothesis import strategies as st
    from hypothesis.stateful import RuleBasedStateMachine, rule, precondition

    class M(RuleBasedStateMachine):
        def __init__(self):
            super().__init__()
            self.steps = []

        @rule(i=st.integers(0, 7))
        def set_path(self, i):
            self.steps.append(['path', i])

        @rule(e=st.sampled_from(ENTRIES[1:]))
        def set_entry(self, e):
            self.steps.append(['entry', e])

        @rule(b=st.booleans())
        def safety(self, b):
            self.steps.append(['safety', b])

        @precondition(lambda self: any(s[0] == 'path' for s in self.steps))
        @rule(w=st.sampled_from(['get', 'get', 'get', 'write']))
        def get(self, w):
            self.steps.append([w])

        def teardown(self):
            if not any(s[0] in ('get', 'write') for s in self.steps) or rec.out_of_time():
                return
            h = {'steps': json.loads(json.dumps(self.steps))}
            n = []
            fails = replay(h, n)
            rec.case(h, is_nontrivial(h), sorted(features(h)), n=max(1, len(n)), sample=h)
            for f in fails:
                rec.fail(**f)
    return M


NSHARD = 16


def plan(tier):
    n = 60 if tier == 'quick' else 600
    specs = [{'kind': 'machine', 'shard': i, 'examples': n} for i in range(NSHARD)]
    seeds = [0, 1, 2, 'random'] if tier == 'quick' else [0, 1, 2, 3, 5, 8, 13, 21, 34, 'random', 'random', 'random']
    for j, s in enumerate(seeds):
        specs.append({'kind': 'matrix', 'shard': 100 + j, 'hashseed': s, 'order': j})
    for j in range(4 if tier == 'quick' else 24):
        specs.append({'kind': 'threads', 'shard': 200 + j, 'hashseed': j % 3, 'repeat': 5 if tier == 'quick' else 12})
    for j in range(6 if tier == 'quick' else 16):
        specs.append({'kind': 'sched', 'shard': 300 + j, 'hashseed': j % 3, 'rounds': 40 if tier == 'quick' else 600})
    return specs


def run_shard(spec, rec):
    if spec['kind'] == 'machine':
        import hypothesis
        from hypothesis import settings, HealthCheck, Phase
        from hypothesis.stateful import run_state_machine_as_test
        M = hypothesis.seed(env.derive_seed('c09', spec['shard']))(build_machine(rec))
        run_state_machine_as_test(M, settings=settings(max_examples=spec['examples'], stateful_step_count=15, database=None, deadline=None,
                                                       phases=[Phase.generate], suppress_health_check=list(HealthCheck),
                                                       report_multiple_bugs=False))
        return
    import random
    paths = make_pool(env.tmpdir())
    items = matrix_items()
    rnd = random.Random(env.derive_seed('c09', spec['shard']))
    if spec['kind'] == 'sched':
        # interleavings chosen by the harness: call counts of every item alone first, then schedules cut at fractions of them
        counts = run_child({'kind': 'measure', 'items': items, 'paths': paths}, spec['hashseed'])
        deep_idx = [i for i, it in enumerate(items) if it[0] == 5]
        for _ in range(spec['rounds']):
            if rec.out_of_time():
                break
            k = rnd.choice([2, 2, 2, 3])
            idx = [rnd.randrange(len(items)) for _ in range(k)]
            if rnd.random() < 0.6:
                idx[rnd.randrange(k)] = rnd.choice(deep_idx)
            job = {'kind': 'sched', 'items': [items[i] for i in idx], 'schedule': make_schedule(rnd, [counts[i] for i in idx])}
            case = {'job': job, 'hashseed': spec['hashseed']}
            fs = run_job(case, paths)
            rec.case(case, True, ['lane:sched', f'threads:{k}', f'segments:{len(job["schedule"])}', 'deep' if any(items[i][0] == 5 for i in idx) else 'shallow'],
                     sample={'kind': 'sched', 'items': job['items'], 'schedule': job['schedule']})
            for f in fs:
                rec.fail(**f)
        return
    if spec['kind'] == 'matrix':
        # cold (one item per child) for a few, then one child that runs everything in a shuffled order (history leakage)
        order = list(items)
        rnd.shuffle(order)
        jobs = [{'kind': 'sequence', 'items': order}] + [{'kind': 'sequence', 'items': [it]} for it in order[:3]] + \
               [{'kind': 'sequence', 'items': order[:10] + [it for it in items if it[1] in (None, ['K', 'D', '1'])][:6], 'tz': ['EAST-14', 'WEST12'][spec.get('order', 0) % 2]}]
    else:
        order = list(items)
        rnd.shuffle(order)
        deep_items = [it for it in items if it[0] == 5]
        jobs = [{'kind': 'threads', 'threads': 8, 'items': order[:12] + deep_items, 'repeat': spec['repeat']}]
    for job in jobs:
        if rec.out_of_time():
            break
        case = {'job': job, 'hashseed': spec['hashseed']}
        fs = run_job(case, paths)
        n = len(job['items']) * job.get('repeat', 1)
        rec.case(case, True, ['lane:' + job['kind'], f'hashseed:{spec["hashseed"]}', 'cold' if len(job['items']) == 1 else 'warm'], n=n,
                 sample={'kind': job['kind'], 'hashseed': spec['hashseed'], 'items': job['items'][:4]})
        for f in fs:
            rec.fail(**f)


def shrink_candidates(case):
    if 'steps' in case:
        steps = case['steps']
        for i in range(len(steps) - 1):
            yield {'steps': steps[:i] + steps[i + 1:]}
    elif case['job']['kind'] == 'sequence' and len(case['job']['items']) > 1:
        items = case['job']['items']
        for i in range(len(items)):
            yield {**case, 'job': {**case['job'], 'items': items[:i] + items[i + 1:]}}


MATCHERS = {}


if __name__ == '__main__':
    child_main()
