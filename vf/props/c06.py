"""C06 - translation is total: a loadable Python class or a library exception.

Lanes
  wb      Hypothesis workbooks: 1-4 sheets with titles from hostile alphabets, constants of every type openpyxl writes
          (int, float incl. huge / tiny, bool, text full of quotes / backslashes / newlines / braces / % / format
          fields, error strings, date, date-time, time, timedelta, ArrayFormula), valid formulas of the whole supported
          grammar (C05's seed grammar) and - in the adversarial lane - malformed, unsupported, truncated and token-soup
          formulas, references to missing sheets, row-0 and over-long references, cycles.  Translated whole-file and, for
          every formula cell, through the entry point.
  deep    size-parameterised families (parenthesis depth, nested SUM / IF depth, operator chain, argument count,
          forward / backward reference chains across cells, long literals): outcome class at every size and a
          deterministic work counter (sys.setprofile: calls into the repository) whose growth must stay polynomial.
Oracle (outcome classification of Parser.get_translation under an alarm)
  library exception (E2PyclException hierarchy) -> fine;
  text -> compile() and exec must succeed and define ExcelInPython; get_titles() / get_sheets_size() equal the model;
          every non-blank cell (whole-file) resp. the entry cell has a callable member named by its coordinates; every
          member evaluates to the same outcome (value, or exception type) on the exec'ed class and on the class loaded from
          the written file through Executor(class_file=...); a constant evaluates to the stored value; evaluation never
          ends in NameError / SyntaxError (generated code that refers to undefined names);
  anything else (AttributeError, IndexError, KeyError, TypeError, ValueError, RecursionError, SyntaxError on load) ->
          violation.  A timeout is inconclusive; slowness is judged only by the work counter.
"""
import datetime
import os
import random
import sys

from .. import env
from .. import wbk
from ..run import hyp_run
from . import c05

ID = 'C06'
LEVEL = 'exploration'
BUDGET_S = {'quick': 300, 'thorough': 1700}
RULE = ('a case = one translation (whole file, or one entry cell) of a generated workbook; non-trivial = the workbook contains '
        'a malformed / unsupported formula, or a title or text with a character outside [A-Za-z0-9_ ], or a constant that is '
        'neither int nor plain text; deep lane: a case = one (family, size) translation, non-trivial = size >= 8; '
        'distinct = distinct (workbook, entry) / (family, size)')
ASSUMPTIONS = ['evaluation-time exceptions of a formula (division by zero, AVERAGE of nothing, a text where a number is needed) are the '
               'library\'s error convention and are not judged here, except NameError / SyntaxError / UnboundLocalError, which mean the emitted '
               'code is not evaluable',
               'a per-call alarm that fires is counted as inconclusive; "never hangs" is represented by the growth bound of a '
               'deterministic work counter on size-parameterised families (ratio of successive sizes below 1.7 at the three largest sizes)',
               'titles are limited to what openpyxl accepts (<= 31 characters, none of \\ / ? * [ ] :), text to XML-legal characters']

FOREIGN_EVAL = ('NameError', 'SyntaxError', 'UnboundLocalError', 'IndentationError')


# ------------------------------------------------------------------ checking one workbook

def normalise_const(v):
    v = wbk.dec(v)
    if isinstance(v, bool):
        return v
    if isinstance(v, float) and v == int(v) and abs(v) < 2 ** 53:
        return int(v)
    if isinstance(v, datetime.datetime):
        return v
    if isinstance(v, datetime.date):
        return datetime.datetime(v.year, v.month, v.day)
    return v


def is_formula(v):
    return (isinstance(v, str) and v.startswith('=')) or (isinstance(v, dict) and ('$arr' in v or '$table' in v))


def same_outcome(a, b):
    if a[0] != b[0]:
        return False
    if a[0] == 'value':
        x, y = a[1], b[1]
        if wbk.is_blank(x) or wbk.is_blank(y):
            return wbk.is_blank(x) and wbk.is_blank(y)
        if isinstance(x, float) and isinstance(y, float) and x != x and y != y:
            return True
        if isinstance(x, (datetime.date, datetime.datetime)) and 'TODAY' in str(a[2:] or ''):
            return True
        return type(x) is type(y) and x == y
    if a[0] == 'timeout':
        return True
    return a[1] == b[1]


def check_text(spec, src, entry, exp_cells, fails, rec):
    """src: returned text.  entry: None (whole file) or (sheet_index, col, row) 1-based col/row."""
    def fail(rel, bucket, expected, actual, extra=None):
        fails.append({'case': {**{k: v for k, v in spec.items() if k != '_stored'}, 'entry': entry}, 'expected': expected, 'actual': actual, 'relation': rel, 'bucket': bucket, 'extra': extra})
    o = wbk.outcome(lambda: wbk.load_source(src))
    if o[0] != 'value':
        fail('text-compiles-and-loads', f'load:{o[1] if len(o) > 1 else o[0]}', 'a loadable module', wbk.show_outcome(o), {'snippet': snippet(src, o)})
        return
    cls_a = o[1]
    # the same file name every time: loading a written file must give the class of what was written last
    path = os.path.join(env.tmpdir(), 'translation.py')
    with open(path, 'w', encoding='utf-8') as f:
        f.write(src)
    try:
        ob = wbk.outcome(lambda: wbk.Executor().set_executed_class(class_file=path))
        oa = wbk.outcome(lambda: wbk.Executor().set_executed_class(class_object=cls_a))
        if ob[0] != 'value' or oa[0] != 'value':
            fail('loads-from-file-and-from-class-object', f'executor-load:{(ob if ob[0] != "value" else oa)[1]}', 'two executors', [wbk.show_outcome(oa)[0], wbk.show_outcome(ob)[0:2]])
            return
        ex_a, ex_b = oa[1], ob[1]
        inst = ex_a.get_executed_class()
        exp_titles = {sh['title']: i for i, sh in enumerate(spec['sheets'])}
        exp_sizes = []
        for sh in spec['sheets']:
            coords = [wbk.split_a1(a) for a, v in sh['cells'].items() if v is not None]
            exp_sizes.append({'last_column': max([c for c, _ in coords] or [0]), 'last_row': max([r for _, r in coords] or [0])})
        for name, inst_ in (('class-object', inst), ('file', ex_b.get_executed_class())):
            t = wbk.outcome(inst_.get_titles)
            s = wbk.outcome(inst_.get_sheets_size)
            if t[0] != 'value' or t[1] != exp_titles or list(t[1]) != list(exp_titles):
                fail('titles-of-the-workbook', f'titles:{name}', exp_titles, wbk.show_outcome(t))
            if s[0] != 'value' or s[1] != exp_sizes:
                fail('sizes-of-the-workbook', f'sizes:{name}', exp_sizes, wbk.show_outcome(s))
        if entry is None:
            todo = [(si, c, r, v) for (si, c, r, v) in exp_cells]
        else:
            todo = [(si, c, r, v) for (si, c, r, v) in exp_cells if (si, c, r) == tuple(entry)]
        for (si, c, r, v) in todo:
            uid = f'_{si}_{c - 1}_{r - 1}'
            m = getattr(cls_a, uid, None)
            if not callable(m):
                fail('one-member-per-translated-cell', 'member-missing', uid, 'no such callable member', {'cell': [si, wbk.a1(c, r)], 'value': v})
                continue
            va = wbk.outcome(lambda: ex_a.get_cell(wbk.Cell(si, c - 1, r - 1)).value)
            vb = wbk.outcome(lambda: ex_b.get_cell(wbk.Cell(si, c - 1, r - 1)).value)
            if rec:
                rec.count('members_evaluated')
            if va[0] == 'foreign' and va[1] in FOREIGN_EVAL:
                fail('members-are-evaluable', f'eval:{va[1]}', 'a value or an evaluation error of the formula', wbk.show_outcome(va), {'cell': [si, wbk.a1(c, r)], 'value': v})
                continue
            if not same_outcome(va, vb) and not (isinstance(v, str) and 'TODAY' in v):
                fail('file-and-class-object-behave-the-same', 'file-vs-object', wbk.show_outcome(va), wbk.show_outcome(vb), {'cell': [si, wbk.a1(c, r)], 'value': v})
            if not is_formula(v):
                e = spec['_stored'].get((si, c, r), normalise_const(v))
                if isinstance(e, float) and e != e:
                    continue
                if va[0] != 'value' or not (type(va[1]) is type(e) and va[1] == e):
                    if isinstance(e, (datetime.time, datetime.timedelta)):
                        continue    # how openpyxl hands back durations is C18's subject
                    fail('constants-evaluate-to-their-value', 'constant:' + type(e).__name__, wbk.show(e), wbk.show_outcome(va), {'cell': [si, wbk.a1(c, r)]})
    finally:
        try:
            os.unlink(path)
        except OSError:
            pass


def snippet(src, o):
    try:
        import re
        m = re.search(r'line (\d+)', o[2])
        if m:
            ln = int(m.group(1))
            return src.splitlines()[ln - 1][:300]
    except Exception:   # noqa
        pass
    return None


def classify_spec(spec):
    tags = set()
    for sh in spec['sheets']:
        if any(not (ch.isascii() and (ch.isalnum() or ch in '_ ')) for ch in sh['title']):
            tags.add('hostile-title')
        for a, v in sh['cells'].items():
            if is_formula(v):
                tags.add('formula')
                t = v if isinstance(v, str) else v['$arr'][1] if '$arr' in v else '=TABLE(' + v['$table'][1] + ')'
                vd = c05.verdict(t if t.startswith('=') else '=' + t)[0]
                tags.add('formula:' + vd)
            elif isinstance(v, str):
                if any(not (ch.isascii() and (ch.isalnum() or ch in '_ ')) for ch in v):
                    tags.add('hostile-text')
                else:
                    tags.add('plain-text')
            elif isinstance(v, dict):
                tags.add('const:' + next(iter(v)))
            elif isinstance(v, bool):
                tags.add('const:bool')
            elif isinstance(v, float):
                tags.add('const:float')
            elif isinstance(v, int):
                tags.add('const:int')
    return tags


def run_spec(spec, rec=None):
    model = {'sheets': [{'title': sh['title'], 'cells': sh['cells']} for sh in spec['sheets']]}
    try:
        path = wbk.write_xlsx(model)
    except Exception as e:  # noqa - openpyxl refused the model: a generator problem, not a product one
        if rec:
            rec.count('openpyxl_refused:' + type(e).__name__)
        return []
    fails = []
    # what the file really holds, as openpyxl's ordinary reader sees it (16-digit number texts, dates as date-times, ...)
    stored = {}
    wb_ = wbk.openpyxl.load_workbook(path)
    for si, sh in enumerate(spec['sheets']):
        ws = wb_[sh['title']]
        for a, v in sh['cells'].items():
            if v is not None and not is_formula(v):
                stored[(si, *wbk.split_a1(a))] = ws[a].value
    wb_.close()
    spec = {**spec, '_stored': stored}
    tags = classify_spec(spec)
    nt = bool(tags & {'hostile-title', 'hostile-text', 'formula:invalid', 'formula:unsure', 'const:bool', 'const:float', 'const:$dt', 'const:$d',
                      'const:$t', 'const:$td', 'const:$arr'})
    exp_cells = [(si, *wbk.split_a1(a), v) for si, sh in enumerate(spec['sheets']) for a, v in sh['cells'].items() if v is not None]
    try:
        entries = [None]
        if spec.get('entries'):
            entries += [(si, c, r) for (si, c, r, v) in exp_cells if is_formula(v)][:spec['entries']]
        if spec.get('only_entry') is not None:
            entries = [tuple(spec['only_entry'])] if spec['only_entry'] else [None]
        for ent in entries:
            cell_ent = None if ent is None else (ent[0], ent[1] - 1, ent[2] - 1)
            o = wbk.outcome(lambda: wbk.translate_path(path, entry=cell_ent))
            if rec:
                rec.case({'spec': {k: v for k, v in spec.items() if k != '_stored'}, 'entry': ent}, nt, sorted(tags) + ['mode:' + ('whole' if ent is None else 'entry'), 'outcome:' + (o[0] if o[0] != 'lib' else 'lib:' + o[1])],
                         sample={'sheets': model['sheets'] if len(str(model)) < 1500 else '(large)', 'entry': ent, 'outcome': o[0] if o[0] != 'value' else 'text'})
            if o[0] == 'timeout':
                if rec:
                    rec.count('timeout_inconclusive')
                continue
            if o[0] == 'lib':
                continue
            if o[0] == 'foreign':
                fails.append({'case': {**{k: v for k, v in spec.items() if k != '_stored'}, 'entry': ent}, 'expected': 'source text or an E2PyclException', 'actual': wbk.show_outcome(o),
                              'relation': 'library-exception-or-text', 'bucket': 'translate:' + o[1], 'extra': None})
                continue
            if not isinstance(o[1], str):
                fails.append({'case': {**{k: v for k, v in spec.items() if k != '_stored'}, 'entry': ent}, 'expected': 'source text', 'actual': repr(o[1])[:100], 'relation': 'library-exception-or-text',
                              'bucket': 'translate:not-text', 'extra': None})
                continue
            check_text(spec, o[1], ent, exp_cells, fails, rec)
        if spec.get('entries') and spec.get('only_entry') is None:
            fails += reuse_one_parser(spec, path, exp_cells, rec)
        return fails
    finally:
        try:
            os.unlink(path)
        except OSError:
            pass


def reuse_one_parser(spec, path, exp_cells, rec):
    """One Parser object walked over the formula cells as entry points (some fail): every call is a library exception or the
    text a fresh Parser gives; a call that failed fails again when repeated; write_translation writes the returned text."""
    fails = []
    case = {**{k: v for k, v in spec.items() if k != '_stored'}, 'reuse': True}

    def fail(bucket, expected, actual, extra=None):
        fails.append({'case': case, 'expected': expected, 'actual': actual, 'relation': 'library-exception-or-text', 'bucket': bucket, 'extra': extra})
    p = wbk.Parser().set_excel_file_path(path)
    p.disable_safety_check()
    entries = [(si, c, r) for (si, c, r, v) in exp_cells if is_formula(v)][:6]
    out_path = os.path.join(env.tmpdir(), 'written.py')
    for (si, c, r) in entries:
        if rec:
            rec.count('reuse_steps')
        p.set_entrypoint_cell(wbk.Cell(si, c - 1, r - 1))
        o1 = wbk.outcome(p.get_translation)
        fresh = wbk.outcome(lambda: wbk.translate_path(path, entry=(si, c - 1, r - 1)))
        if 'timeout' in (o1[0], fresh[0]):
            continue
        for name, o in (('get', o1),):
            if o[0] == 'foreign':
                fail(f'reuse:{name}:{o[1]}', 'text or library exception', wbk.show_outcome(o), {'entry': [si, wbk.a1(c, r)]})
            elif o[0] == 'value' and not isinstance(o[1], str):
                fail(f'reuse:{name}:not-text', 'text', repr(o[1])[:60], {'entry': [si, wbk.a1(c, r)]})
        if (o1[0], fresh[0]) == ('value', 'value') and o1[1] != fresh[1]:
            fail('reuse:differs-from-fresh-parser', 'the text of a fresh Parser', 'another text', {'entry': [si, wbk.a1(c, r)]})
        elif (o1[0] == 'value') != (fresh[0] == 'value'):
            fail('reuse:outcome-differs-from-fresh-parser', wbk.show_outcome(fresh)[:2], wbk.show_outcome(o1)[:2] if o1[0] != 'value' else 'text', {'entry': [si, wbk.a1(c, r)]})
        # again, without a setter in between
        o2 = wbk.outcome(p.get_translation)
        if o2[0] != 'timeout':
            if o1[0] == 'lib' and o2[0] != 'lib':
                fail('reuse:retry-after-failure', wbk.show_outcome(o1)[:2], wbk.show_outcome(o2)[:2] if o2[0] != 'value' else repr(o2[1])[:40], {'entry': [si, wbk.a1(c, r)]})
            elif o1[0] == 'value' and (o2[0] != 'value' or o2[1] != o1[1]):
                fail('reuse:repeat-differs', 'the same text', wbk.show_outcome(o2)[:2] if o2[0] != 'value' else 'another text', {'entry': [si, wbk.a1(c, r)]})
        ow = wbk.outcome(lambda: p.write_translation(out_path))
        if ow[0] == 'foreign':
            fail(f'reuse:write:{ow[1]}', 'file written or library exception', wbk.show_outcome(ow), {'entry': [si, wbk.a1(c, r)]})
        elif ow[0] == 'value' and o1[0] == 'value':
            with open(out_path, encoding='utf-8') as f:
                if f.read() != o1[1]:
                    fail('reuse:written-file-differs', 'the returned text', 'another text', {'entry': [si, wbk.a1(c, r)]})
        elif ow[0] == 'value' and o1[0] == 'lib':
            fail('reuse:write-after-failure', wbk.show_outcome(o1)[:2], 'file written', {'entry': [si, wbk.a1(c, r)]})
    return fails


def run_case(case):
    if 'timed' in case:
        # the whole family again: where exactly a time threshold is crossed depends on the load of the machine
        fs = run_timed_family(case['timed'], TIMED[case['timed']], None)
        return fs
    if 'family' in case:
        return run_family_point(case['family'], case['size'], None)[0]
    spec = dict(case)
    if spec.pop('reuse', False):
        spec.pop('entry', None)
        return [f for f in run_spec({**spec, 'entries': spec.get('entries') or 6}) if f['case'].get('reuse')]
    ent = spec.pop('entry', 'absent')
    if ent != 'absent':
        spec['only_entry'] = list(ent) if ent else []
    return run_spec(spec)


def shrink_candidates(case):
    if 'timed' in case:
        return
    if 'family' in case:
        if case['size'] > 1:
            yield {**case, 'size': case['size'] - 1}
            yield {**case, 'size': case['size'] // 2}
        return
    sheets = case['sheets']
    ent = case.get('entry')
    for si, sh in enumerate(sheets):
        for a in list(sh['cells']):
            if ent and ent[0] == si and wbk.a1(ent[1], ent[2]) == a:
                continue
            c = dict(sh['cells'])
            del c[a]
            yield {**case, 'sheets': sheets[:si] + [{**sh, 'cells': c}] + sheets[si + 1:]}
    for si, sh in enumerate(sheets):
        for a, v in sh['cells'].items():
            if isinstance(v, str) and len(v) > 1:
                for ln in (8, 3, 1):
                    for j in range(1 if v.startswith('=') else 0, max(0, len(v) - ln + 1)):
                        nv = v[:j] + v[j + ln:]
                        if nv and nv != '=':
                            yield {**case, 'sheets': sheets[:si] + [{**sh, 'cells': {**sh['cells'], a: nv}}] + sheets[si + 1:]}
        if len(sh['title']) > 1:
            for j in range(len(sh['title'])):
                nt = sh['title'][:j] + sh['title'][j + 1:]
                if nt.strip() and nt not in [s['title'] for s in sheets] and not nt.startswith("'") and not nt.endswith("'"):
                    yield {**case, 'sheets': sheets[:si] + [{**sh, 'title': nt}] + sheets[si + 1:]}


# ------------------------------------------------------------------ deep families + deterministic work counter

def family_model(name, d):
    """-> workbook model for family `name` at size d"""
    cells = {'A1': 1, 'A2': 2}
    if name == 'parens':
        cells['C1'] = '=' + '(' * d + '1' + ')' * d
    elif name == 'parens-sum':
        cells['C1'] = '=' + '(' * d + '1+A1' + ')' * d + '+2'
    elif name == 'nested-sum':
        cells['C1'] = '=' + 'SUM(' * d + '1' + ')' * d
    elif name == 'nested-if':
        cells['C1'] = '=' + ''.join('IF(A1>%d,%d,' % (i, i) for i in range(d)) + '0' + ')' * d
    elif name == 'nested-mixed':
        fs = ['ROUND(', 'MAX(', 'IFERROR(', 'SUM(']
        cells['C1'] = '=' + ''.join(fs[i % 4] for i in range(d)) + 'A1' + ''.join({'ROUND(': ',1)', 'MAX(': ',2)', 'IFERROR(': ',0)', 'SUM(': ')'}[fs[i % 4]] for i in reversed(range(d)))
    elif name == 'op-chain':
        cells['C1'] = '=1' + '+A1*2' * (5 * d)
    elif name == 'cmp-amp-chain':
        cells['C1'] = '="a"' + '&"b"' * (5 * d)
    elif name == 'unary-chain':
        cells['C1'] = '=' + '-' * (5 * d) + '1'
    elif name == 'args':
        cells['C1'] = '=SUM(' + ','.join(['1'] * (10 * d)) + ')'
    elif name == 'ifs-args':
        cells['C1'] = '=IFS(' + ','.join(f'A1={i},{i}' for i in range(5 * d)) + ')'
    elif name == 'chain-forward':
        for i in range(2, 10 * d + 2):
            cells[f'B{i}'] = f'=B{i - 1}+1' if i > 2 else '=A1'
        cells['C1'] = f'=B{10 * d + 1}'
    elif name == 'chain-backward':
        n = 10 * d + 2
        for i in range(2, n):
            cells[f'B{i}'] = f'=B{i + 1}+1'
        cells[f'B{n}'] = '=A1'
        cells['C1'] = '=B2'
    elif name == 'long-int-literal':
        cells['C1'] = '=' + '1' * (400 * d)
    elif name == 'long-frac-literal':
        cells['C1'] = '=0.' + '1' * (400 * d)
    elif name == 'long-string':
        cells['C1'] = '="' + 'ab' * (500 * d) + '"'
    elif name == 'compare-chain':
        cells['C1'] = '=1' + ''.join(['<2', '=TRUE', '<>3', '>=0', '<=A1', '>A2'][i % 6] for i in range(5 * d))
    elif name == 'percent-run':
        cells['C1'] = '=A1' + '%' * (5 * d)
    elif name == 'compare-in-args':
        cells['C1'] = '=SUM(' + ','.join('(A1<%d)=(A2>%d)' % (i, i) for i in range(3 * d)) + ')+IF(' + 'A1<2=TRUE' + '=TRUE' * (3 * d) + ',1,2)'
    elif name == 'chain-in-arg':
        # one long chain of comparisons / percent signs inside an argument of a function whose arguments get methods of their own
        cells['C1'] = '=SUM(1' + '=1' * (5 * d) + ',2)+MAX(A1' + '%' * (5 * d) + ',0)+COUNT(A1' + '<2' * (5 * d) + ')'
    elif name == 'criterion-digits':
        cells['C1'] = '=COUNTIFS(A1:A2,">' + '9' * (100 * d) + '")+SUMIF(A1:A2,"<' + '1' * (100 * d) + '.5")'
    elif name == 'criterion-exponent':
        cells['C1'] = f'=COUNTIFS(A1:A2,">1e{10 * d}")+SUMIF(A1:A2,"<>2.5e{10 * d}")+COUNTIFS(A1:A2,"=1e-{10 * d}")+COUNTIFS(A1:A2,"<"&1e{min(10 * d, 300)})'
    elif name == 'wide-area':
        cells['C1'] = f'=SUM(A1:{wbk.a1(20 * d, 3)})'
    else:
        raise env.HarnessError(name)
    return {'sheets': [{'title': 'S', 'cells': cells}]}


FAMILIES = {'parens': 40, 'parens-sum': 40, 'nested-sum': 30, 'nested-if': 24, 'nested-mixed': 28, 'op-chain': 16, 'cmp-amp-chain': 16, 'unary-chain': 16,
            'args': 16, 'ifs-args': 12, 'chain-forward': 16, 'chain-backward': 16, 'long-int-literal': 16, 'long-frac-literal': 8, 'long-string': 8,
            'wide-area': 10, 'compare-chain': 12, 'percent-run': 12, 'compare-in-args': 8, 'chain-in-arg': 10, 'criterion-digits': 8, 'criterion-exponent': 12}
WORK_CAP = 6_000_000
# sizes far beyond the unit steps (only the outcome class is judged there: python's compiler has limits of its own - about 200
# nested brackets - that a translation must respect or reject)
FAR = {'parens': [64, 65, 100, 199, 200, 201, 250, 400], 'parens-sum': [64, 65, 100, 199, 200, 201, 250], 'nested-sum': [64, 65, 100, 200],
       'nested-if': [64, 65, 100], 'nested-mixed': [64, 65, 120], 'unary-chain': [13, 14, 40, 41, 50, 60], 'op-chain': [40, 41, 45, 60, 100],
       'cmp-amp-chain': [40, 41, 45, 60, 100], 'args': [25, 40, 100], 'ifs-args': [40, 45], 'chain-backward': [30, 60], 'chain-forward': [60, 200],
       'compare-chain': [25, 37, 38, 39, 40, 50, 100, 400], 'percent-run': [25, 37, 38, 39, 40, 50, 100, 400], 'compare-in-args': [20, 62, 63, 64, 65, 70, 100], 'chain-in-arg': [25, 37, 38, 39, 40, 46, 50, 60, 66, 100],
       'criterion-digits': [30, 42, 43, 44, 45, 100], 'criterion-exponent': [30, 31, 32, 40, 100]}


class WorkCounter:
    def __init__(self):
        self.n = 0
        self.prefix = env.REPO + os.sep

    def __call__(self, frame, event, arg):
        if event == 'call' and frame.f_code.co_filename.startswith(self.prefix):
            self.n += 1


def run_family_point(name, d, rec):
    """-> (failures, work or None)"""
    model = family_model(name, d)
    spec = {'sheets': model['sheets'], '_stored': {}}
    path = wbk.write_xlsx(model)
    fails = []
    try:
        wc = WorkCounter()

        def go():
            sys.setprofile(wc)
            try:
                return wbk.translate_path(path, entry=(0, 2, 0))
            finally:
                sys.setprofile(None)
        o = wbk.outcome(go, timeout=wbk.CALL_TIMEOUT * 4)
        sys.setprofile(None)
        if rec:
            rec.case({'family': name, 'size': d}, d >= 8, ['family:' + name, 'outcome:' + (o[0] if o[0] != 'lib' else 'lib:' + o[1])],
                     sample={'family': name, 'size': d, 'formula': str(model['sheets'][0]['cells'].get('C1'))[:120], 'work': wc.n})
        case = {'family': name, 'size': d}
        if o[0] == 'timeout':
            if rec:
                rec.count('timeout_inconclusive')
            return fails, None
        if o[0] == 'foreign':
            fails.append({'case': case, 'expected': 'source text or an E2PyclException', 'actual': wbk.show_outcome(o), 'relation': 'library-exception-or-text',
                          'bucket': f'deep:{name}:translate:{o[1]}', 'extra': None})
            return fails, wc.n
        if o[0] == 'lib':
            return fails, wc.n
        f2 = []
        exp_cells = [(0, *wbk.split_a1(a), v) for a, v in model['sheets'][0]['cells'].items()]
        check_text(spec, o[1], (0, 3, 1), exp_cells, f2, rec)
        for f in f2:
            f['case'] = case
            f['bucket'] = f'deep:{name}:' + f['bucket']
        return fails + f2, wc.n
    finally:
        try:
            os.unlink(path)
        except OSError:
            pass


def run_family(name, dmax, rec):
    works = []
    fails = []
    for d in range(1, dmax + 1):
        if rec.out_of_time():
            break
        fs, w = run_family_point(name, d, rec)
        fails += fs
        if w is None:
            break
        works.append((d, w))
        if w > WORK_CAP:
            break
    for d in FAR.get(name, []):
        if rec.out_of_time():
            break
        fs, _ = run_family_point(name, d, rec)
        fails += fs
    # growth: ratio of successive sizes at the three largest sizes
    if len(works) >= 6:
        tail = works[-4:]
        ratios = [tail[i + 1][1] / max(1, tail[i][1]) for i in range(3)]
        rec.count(f'growth:{name}:max_ratio_x100', int(max(ratios) * 100))
        rec.count(f'growth:{name}:sizes', len(works))
        if min(ratios) > 1.7:
            fails.append({'case': {'family': name, 'size': works[-1][0]}, 'expected': 'work(d+1)/work(d) < 1.7', 'actual': works[-6:],
                          'relation': 'work-grows-polynomially', 'bucket': f'deep:{name}:growth', 'extra': {'ratios': ratios}})
    return fails


# ------------------------------------------------------------------ timed families (work inside C regular expressions)

TIMED = {'quoted-title': 31, 'quoted-title-unterminated': 31, 'spaces': 12, 'upper-run': 12, 'digits-then-letter': 12, 'quote-run': 12,
         'dollar-run': 12, 'sparse-far': 12}
# families whose size parameter adds no content (three stored cells, one of them further and further from the origin): the time
# must not depend on the size at all
FLAT = {'sparse-far'}
TIMED_LIMIT = 90.0


def timed_model(name, d):
    cells = {'A1': 1}
    sheets = [{'title': 'S', 'cells': cells}]
    if name.startswith('quoted-title'):
        t = ('Long title ' + 'x' * 31)[:d] if d > 10 else 'T' * d
        t = t.rstrip() or 'T'
        sheets.append({'title': t, 'cells': {'A1': 5}})
        cells['C1'] = f"='{t}'!A1+1" if name == 'quoted-title' else f"='{t}"
    elif name == 'sparse-far':
        cells['B1'] = 2
        cells[wbk.a1(50 * d, 2000 * d)] = 3
    elif name == 'spaces':
        cells['C1'] = '=1' + (' ' * (300 * d)) + '+' + ('\t' * (100 * d)) + '2'
    elif name == 'upper-run':
        cells['C1'] = '=' + 'ABCDEFGHIJ' * (30 * d) + '(1)'
    elif name == 'digits-then-letter':
        cells['C1'] = '=' + '1234567890' * (30 * d) + 'x'
    elif name == 'quote-run':
        cells['C1'] = '=' + "'" * (40 * d) + '!A1'
    elif name == 'dollar-run':
        cells['C1'] = '=' + '$A' * (40 * d) + '$1'
    else:
        raise env.HarnessError(name)
    return {'sheets': sheets}


def child_main():
    import json
    import time
    job = json.load(sys.stdin)
    path = wbk.write_xlsx(timed_model(job['family'], job['size']))
    # processor time of this child, not wall time: the growth rule must not depend on how loaded the machine is
    t0 = time.process_time()
    o = wbk.outcome(lambda: wbk.translate_path(path), timeout=3600)
    json.dump({'outcome': o[0] if o[0] != 'lib' else 'lib:' + o[1], 'detail': (o[1] if o[0] == 'foreign' else ''), 'elapsed': time.process_time() - t0}, sys.stdout)


def run_timed_point(name, d):
    """-> dict(outcome=..., elapsed=...) or {'outcome': 'killed', 'elapsed': TIMED_LIMIT}"""
    import json
    import subprocess
    envv = dict(os.environ, VF_TMP_PARENT=env.tmpdir())
    try:
        p = subprocess.run([sys.executable, '-B', '-m', 'vf.props.c06'], input=json.dumps({'family': name, 'size': d}), capture_output=True, text=True,
                           cwd=env.VERIF, env=envv, timeout=TIMED_LIMIT)
    except subprocess.TimeoutExpired:
        return {'outcome': 'killed', 'elapsed': TIMED_LIMIT}
    if p.returncode != 0:
        raise env.HarnessError(f'C06 timed child failed: {p.stderr[-1500:]}')
    return json.loads(p.stdout)


def run_timed_family(name, dmax, rec):
    fails = []
    hist = []
    for d in range(1, dmax + 1):
        if rec is not None and rec.out_of_time():
            break
        r = run_timed_point(name, d)
        hist.append((d, round(r['elapsed'], 3), r['outcome']))
        if rec is not None:
            rec.case({'timed': name, 'size': d}, d >= 8, ['timed:' + name, 'outcome:' + r['outcome']], sample={'timed': name, 'size': d, 'elapsed': round(r['elapsed'], 3)})
        case = {'timed': name, 'size': d}
        if r['outcome'] == 'foreign':
            fails.append({'case': case, 'expected': 'source text or an E2PyclException', 'actual': ['foreign', r.get('detail')], 'relation': 'library-exception-or-text',
                          'bucket': f'timed:{name}:translate:{r.get("detail")}', 'extra': None})
            break
        quick_before = [e for (_, e, _) in hist[:-1]][-3:]
        if r['outcome'] == 'killed':
            # no answer within 90 s although the three next smaller sizes answered within 3 s each: not load, a blow-up
            if len(quick_before) == 3 and max(quick_before) < 3.0:
                fails.append({'case': case, 'expected': f'an answer within {TIMED_LIMIT:.0f} s (sizes before: {hist[-4:-1]})', 'actual': 'no answer (translation killed)',
                              'relation': 'translation-terminates', 'bucket': f'timed:{name}:hang', 'extra': {'history': hist[-8:]}})
            elif rec is not None:
                rec.count('timed_inconclusive')
            break
        if name in FLAT and r['elapsed'] > 3.0 and hist[0][1] < 0.3 and r['elapsed'] > 20 * max(hist[0][1], 0.01):
            fails.append({'case': case, 'expected': f'processor time independent of the distance of the last cell (size 1: {hist[0][1]} s)', 'actual': hist[-4:],
                          'relation': 'translation-terminates', 'bucket': f'timed:{name}:growth', 'extra': {'first': hist[0], 'last': hist[-1]}})
            break
        if len(hist) >= 4:
            last = hist[-4:]
            ratios = [last[i + 1][1] / max(last[i][1], 1e-3) for i in range(3)]
            if (all(x > 1.7 for x in ratios) or last[-1][1] / max(last[0][1], 1e-3) > 5.0) and last[-1][1] > 2.0:
                fails.append({'case': case, 'expected': 'processor time(d+1)/time(d) < 1.7 (and time(d+3)/time(d) < 5)', 'actual': last, 'relation': 'translation-terminates',
                              'bucket': f'timed:{name}:growth', 'extra': {'ratios': ratios}})
                break
    if rec is not None and hist:
        rec.count(f'timed:{name}:max_elapsed_ms', int(max(e for _, e, _ in hist) * 1000))
    return fails


# ------------------------------------------------------------------ generators

TITLE_ALPHABET = "AbC xyz09_-.,;!'\"()+&%#{}$@~=<>|äЖ中📊𝒳  "
TEXT_ALPHABET = "ab XY019'\"\\\n\t{}%#()=+-*/&<>,;:!?~$@[]^_`|éЖ中📊𝒳"
HOSTILE_TEXTS = ["it's", 'say "hi"', 'back\\slash', 'a\nb', '{0}', '{titles}', '{functions}', '%s %d', '100%', "'''", '"""', '\\', '\\n', "'", '"',
                 '#DIV/0!', '#N/A', '#VALUE!', '#REF!', "' + str(1) + '", '" + "', 'x = 1', 'import os', 'None', 'True', 'nan', 'inf', '1e400',
                 '{', '}', '{{', '}}', '\\x00', '\\u0041', 'tab\there', ' lead', 'trail ', 'a' * 300, '=', "'=1+1", '-', '+1', '@A1']
UNSUPPORTED = ['=FOO(1)', '=sum(1)', '=SQRT(4)', '=A1^2', '=ABS(-1)', '=LEN("a")', '=NOW()', '=PI()', '=A1:A2 A1:B1', '={1,2,3}', '=#REF!', '=#N/A',
               '=Nope!A1', "='No Such'!A1:B2", '=A0', '=$A$0', '=A0:A3', '=AAAA1', '=XFE1', '=A1048577', '=A99999999999', '=1e999', '=1e309+A1', '=1E5',
               '=A1:B', '=A:B2', '=SUM(A:A', '=IF(', '=)', '=', '==', '=+', '="', '="abc', '=1..2', '=.5', '=5.', '=1 2', '=SUM(1,,2)', '=SUM()', '=IF()',
               '=IFS(0,1,2)', '=5%5%', '=1%2', '=(1+2)%', '=10%%', '=TRUE()()', '=@SUM(1)', '=_x(1)', '=A1!B1', '=S!S!A1', "=''!A1", '=!A1', '=1:2', '=A:1',
               '=INDEX(A1:A3,A1:A3)', '=COUNT((0))', '=SUMIF(A1:A3,">1",B:B)', '=VLOOKUP(1,A1,1)', '=MATCH(1,A1:A3&A1:A3&A1:A3,0)', '=ADDRESS(1,2,3,4,5,6,7)',
               '=COLUMN(A1:B2:C3)', '=DATE(1,2)', '=TEXT(1)', '=1' + '+1' * 60, '=-' * 3 + '1', '=--1', '=1--1', '="a"&', '=&"a"', '=<>1', '=1<>', '=1=<2',
               '=COUNTIFS(A1:A3,"<-007")', '=COUNTIFS(A1:A3,"<>-08")', '=SUMIF(A1:A3,">=-010")', '=COUNTIFS(A1:A3,"=-00")', '=COUNTIFS(A1:A3,"<-00.5")', '=COUNTIFS(A1:A3,">+007")',
               '=COUNTIFS(A1:A3,"-007")', '=COUNTIFS(A1:A3,"+08")', '=COUNTIFS(A1:A3,"<-1e-5")', '=COUNTIFS(A1:A3,">-1e999")', '=COUNTIFS(A1:A3,"<--5")', '=COUNTIFS(A1:A3,">-")',
               '=COUNTIFS(A1:A3,">-0x10")', '=COUNTIFS(A1:A3,"<-1_0")', '=AVERAGEIFS(D1:D2,A1:A2,">-09")', '=SUMIFS(D1:D2,A1:A2,"<>-0")', '=COUNTIFS(A1:A3,">1e+5")', '=COUNTIFS(A1:A3,">1E-5")',
               '=COUNTIFS(A1:A3,">007")', '=COUNTIFS(A1:A3,">٣")', '=SUMIF(A1:A3,"<=0010")', '=COUNTIFS(A1:A3,"=1_000")', '=COUNTIFS(A1:A3,">1E5")', '=COUNTIFS(A1:A3,">.5")',
               '=COUNTIFS(A1:A3,"> 5")', '=COUNTIFS(A1:A3,">-5")', '=COUNTIFS(A1:A3,">+5")', '=COUNTIFS(A1:A3,">5.")', '=COLUMN(ABCD1)', '=COLUMN(A0)', '=COLUMN(A0:B2)',
               '=SUM(A1:A3)(1)', '=SUM (1)', '=S U M(1)', '=SUMM(1)', '=IFF(1,2,3)', '=TRUEFALSE', '=TRUE1', '=FALSE0', '=A1B2', '=1A', '=A', '=AB', '=$', '=$A', '=A$',
               "='", "='a", "='a'", "='a'!", '=!', '=~', '=~1', '=1~2', '=;', '=,', '=(,)', '=(1,2)', '=((1)', '=(1))']


def wb_strategy(adversarial):
    from hypothesis import strategies as st
    safe_title_chars = [c for c in TITLE_ALPHABET if c not in '\\/?*[]:']
    title = st.one_of(st.sampled_from(['S', 'Data', 'My Sheet', 'KPI 📊 2024', '𝒳', "it's", 'a!b', '1', '0', 'A1', 'TRUE', "o'clock \"x\"", '{0}', '%s', 'Лист1', 'S-1', 'a.b', '#', 'x y z']),
                      st.text(alphabet=safe_title_chars, min_size=1, max_size=12))
    title = title.filter(lambda t: t.strip() == t and t and not t.startswith("'") and not t.endswith("'"))
    text = st.one_of(st.sampled_from(HOSTILE_TEXTS), st.text(alphabet=TEXT_ALPHABET, min_size=1, max_size=20)).filter(lambda s: s and not s.startswith('='))
    num = st.one_of(st.integers(-10 ** 6, 10 ** 6), st.integers(-2 ** 62, 2 ** 62), st.floats(allow_nan=False, allow_infinity=False, width=64),
                    st.sampled_from([0, -0.0, 1e-320, 1.7976931348623157e308, 5e-324, 0.1, 1 / 3, 2 ** 53 + 1, 1e22, 1e21, 123456789012345680000, -1e-7]))
    date = st.one_of(st.dates(datetime.date(1900, 3, 1), datetime.date(9999, 12, 31)).map(lambda d: {'$d': d.isoformat()}),
                     st.datetimes(datetime.datetime(1900, 3, 1), datetime.datetime(9999, 12, 31)).map(lambda d: {'$dt': d.replace(microsecond=0).isoformat()}),
                     st.times().map(lambda t: {'$t': t.replace(microsecond=0).isoformat()}),
                     st.integers(0, 10 ** 6).map(lambda s: {'$td': float(s)}))
    rawnum = st.sampled_from(['1' + '0' * 309, '9' * 400, '-' + '7' * 320, '1E+999', '-1E+999', '1.5E-400', '0.1000000000000000055511151231257827',
                            '12345678901234567890', '1' + '0' * 22]).map(lambda t: {'$rawnum': t})
    const = st.one_of(num, num, st.booleans(), text, text, date, rawnum)
    seed = c05.seed_strategy()
    rnd = st.randoms(use_true_random=False)
    valid_formula = st.tuples(seed, rnd).map(lambda t: c05.render_tokens(c05.ast_tokens(t[0]), [t[1].choice(['', '', ' ']) for _ in range(80)]))
    arrayf = st.sampled_from(['=1+2', '=SUM(A1:A2)', '=A1*2']).map(lambda f: {'$arr': ['H1:H1', f]})
    text_formula = text.filter(lambda s: '"' not in s).map(lambda s: '="' + s + '"')
    bad = st.one_of(st.sampled_from(UNSUPPORTED), st.sampled_from([{'$table': ['H1:H2', 'A1']}, {'$table': ['B2:C3', 'D1']}]),
                    st.tuples(seed, rnd).map(lambda t: c05.render_tokens(c05.mutate_tokens(c05.ast_tokens(t[0]), t[1]))),
                    st.tuples(seed, rnd).map(lambda t: c05.mutate_chars(c05.render_tokens(c05.ast_tokens(t[0])), t[1])),
                    rnd.map(lambda r: c05.soup_items(r, 1)[0]['t']),
                    st.tuples(seed, st.integers(1, 30)).map(lambda t: c05.render_tokens(c05.ast_tokens(t[0]))[:t[1] + 1]).filter(lambda s: len(s) > 1),
                    text.map(lambda s: '=' + s),
                    # criterion literals: an operator and something number-like (what reaches the generated lambda must be python)
                    st.tuples(st.sampled_from(['COUNTIFS(A1:A3,', 'SUMIF(A1:A3,', 'SUMIFS(D1:D2,A1:A2,', 'AVERAGEIFS(D1:D2,A1:A2,']), st.sampled_from(['>', '<', '>=', '<=', '<>', '=', '']),
                              st.text(alphabet='0123456789.eE+-_ ٣٠x,', min_size=1, max_size=8)).map(lambda t: '=' + t[0] + '"' + t[1] + t[2] + '")'),
                    # every pairing of range shapes under SUMIF (whole columns, areas, single cells, $-marks): translated or rejected, never a foreign exception
                    st.tuples(st.sampled_from(['A1:A3', 'A:A', '$A:$A', 'A:B', 'A1:B3', 'A1', '$A$1', 'A1:A1']), st.sampled_from(['">0"', '2', 'B1', '"pear"']),
                              st.sampled_from(['B1', '$B$1', 'B1:B3', 'B:B', 'D1:D2', 'C1', 'D1', 'B1:C1', 'D:D', 'D1:D1'])).map(lambda t: f'=SUMIF({t[0]},{t[1]},{t[2]})'),
                    st.tuples(st.sampled_from(['COLUMN', 'SUM', 'INDEX', 'COUNT']), st.text(alphabet='ABCXZ', min_size=1, max_size=5), st.integers(0, 3)).map(
                        lambda t: f'={t[0]}({t[1]}{t[2]}' + (',1)' if t[0] == 'INDEX' else ')')))
    formula = st.one_of(valid_formula, valid_formula, text_formula, arrayf) if not adversarial else st.one_of(valid_formula, bad, bad, text_formula)
    value = st.one_of(const, const, formula)
    addr = st.tuples(st.integers(1, 8), st.integers(1, 10)).map(lambda t: wbk.a1(*t))

    @st.composite
    def wb(draw):
        n = draw(st.integers(1, 4))
        titles = draw(st.lists(title, min_size=n, max_size=n, unique_by=lambda t: t.lower()))
        sheets = []
        for i, t in enumerate(titles):
            k = draw(st.integers(0 if i else 1, 8))
            cells = draw(st.dictionaries(addr, value, min_size=k, max_size=k))
            if i == 0:
                # the data C05's seed formulas refer to
                base = {'A1': 2, 'A2': 3, 'A3': 5, 'B1': 'pear', 'B2': 'fig', 'C1': {'$dt': '2021-03-15T00:00:00'}, 'D1': 10, 'D2': 20, 'E1': 1.5}
                cells = {**{a: v for a, v in base.items() if draw(st.booleans())}, **cells}
            if adversarial and draw(st.integers(0, 9)) == 0:
                cells[draw(addr)] = draw(st.sampled_from(['=A1', '=B2+1', '=SUM(A1:C3)']))   # may close a cycle
            sheets.append({'title': t, 'cells': cells})
        return {'sheets': sheets, 'entries': draw(st.sampled_from([0, 3, 6])) if not adversarial else 8}
    return wb()


NSHARD = 16


def plan(tier):
    n_clean, n_adv = (110, 200) if tier == 'quick' else (1200, 2200)
    specs = [{'kind': 'wb', 'shard': i, 'adversarial': i % 2 == 1, 'examples': n_adv if i % 2 else n_clean} for i in range(NSHARD)]
    specs += [{'kind': 'deep', 'shard': 100 + i, 'families': sorted(FAMILIES)[i::4], 'scale': 1 if tier == 'quick' else 2} for i in range(4)]
    specs += [{'kind': 'list', 'shard': 200}]
    specs += [{'kind': 'timed', 'shard': 300 + i, 'families': sorted(TIMED)[i::4]} for i in range(4)]
    return specs


def run_shard(spec, rec):
    if spec['kind'] == 'wb':
        def body(s):
            for f in run_spec(s, rec):
                rec.fail(**f)
        hyp_run(wb_strategy(spec['adversarial']), body, spec['examples'], (ID, spec['shard']), rec)
    elif spec['kind'] == 'timed':
        for name in spec['families']:
            for f in run_timed_family(name, TIMED[name], rec):
                rec.fail(**f)
    elif spec['kind'] == 'deep':
        for name in spec['families']:
            for f in run_family(name, FAMILIES[name] * spec['scale'], rec):
                rec.fail(**f)
    else:
        # every listed adversarial formula once, alone, whole-file and as entry
        for f_ in UNSUPPORTED:
            if rec.out_of_time():
                break
            s = {'sheets': [{'title': 'S', 'cells': {'A1': 1, 'A2': 2, 'A3': 3, 'B1': 'x', 'C5': f_}}], 'entries': 1}
            for f in run_spec(s, rec):
                rec.fail(**f)


MATCHERS = {}


if __name__ == '__main__':
    child_main()
