"""C05 - a formula is translated whole or rejected, never silently truncated.

Generated texts ("families" around one valid seed formula):
  canon   the seed rendered with minimal spacing
  ws      the same token list with spaces / tabs / newlines after '=', between any two tokens and after the last one
  sep     the same token list with every argument separator independently ',' or ';'
  mut     1-2 token-level mutations (delete / insert / duplicate / swap / replace / append / prepend; unbalance a bracket;
          double an operator; add or drop an argument; adjacent operands)
  chr     1-2 character-level mutations (delete / insert / duplicate one character, doubled or unbalanced quotes)
  arity   every supported function with 0 .. max+2 arguments drawn from number / cell / area / text / omitted
  soup    short random token sequences
Oracle:
  (a) own lexer (written from the documented token forms) + own recogniser for the supported grammar (the function
      shapes of DESIGN.md Appendix A transcribed as a context-free grammar, full back-tracking): a text outside the
      grammar must raise E2PyclParserException, nothing may end in a foreign exception;
  (b) for accepted texts inside the operator / IF / SUM / MIN / MAX sub-grammar the value must be the reference
      evaluator's value of the *whole* text (vf/ref/formula.py);
  (c) texts of one family that lex to the same token list (whitespace and separator variants) must have the same outcome
      class and the same value.
A text inside the grammar that the library rejects with its parser exception is not a violation of this property
(the library's ordered-choice parser accepts a subset); it is only counted.
"""
import random

from .. import env
from .. import wbk
from ..ref import formula as F
from ..run import hyp_run
from . import c01

ID = 'C05'
LEVEL = 'exploration'
BUDGET_S = {'quick': 300, 'thorough': 1500}
RULE = ('one family of formula texts per example (seed + whitespace / separator variants + token- and character-level '
        'mutants), plus the arity sweep and token soups; a case = one text translated through Parser (entry-point cell) and, '
        'when accepted, evaluated; non-trivial = the text is outside the grammar but has a proper prefix (of >= 2 tokens) that '
        'is a complete formula, or it is a whitespace / separator variant with >= 3 changed positions, or a call with an '
        'argument count outside the function\'s shapes; distinct = distinct text')
ASSUMPTIONS = ['the supported grammar is the transcription in this module (function shapes of Appendix A, operators incl. the '
               'library\'s binary use of % and ~ as a separator); texts whose lexing the transcription does not pin down '
               '(sheet prefixes or $ after a character mutation, over-long column names, half-open areas) are only checked for '
               'foreign exceptions',
               'a text inside the grammar may be rejected with the parser exception (ordered-choice subset) - counted, not asserted',
               'values are asserted only inside the reference evaluator\'s domain and outside the structural triggers of C01\'s open findings']

KEYWORDS = ['ADDRESS', 'AND', 'AVERAGE', 'AVERAGEIFS', 'COLUMN', 'COUNT', 'COUNTBLANK', 'COUNTIFS', 'CONCATENATE', 'DAY', 'DATE',
            'DATEDIF', 'EDATE', 'EOMONTH', 'IF', 'IFERROR', 'INDEX', 'LEFT', 'MATCH', 'MAX', 'MID', 'MIN', 'MONTH',
            'NETWORKDAYS', 'OR', 'RIGHT', 'ROUND', 'ROUNDUP', 'ROUNDDOWN', 'SEARCH', 'SUM', 'SUMIF', 'SUMIFS', 'TODAY',
            'VLOOKUP', 'XMATCH', 'YEAR', 'IFS', 'TEXT', 'VALUE']
KWSET = set(KEYWORDS)
OPS2 = ('<>', '>=', '<=')
OPS1 = ('=', '>', '<', '+', '-', '*', '/', '&', '%')
SEPS = (',', ';', '~')
WS = ' \t\n'


# ------------------------------------------------------------------ reference lexer

class Unsure(Exception):
    """The transcription does not pin down how this text is split into tokens."""


class LexInvalid(Exception):
    """No token of the grammar starts here: the text is outside the grammar."""


def ref_lex(text):
    """text after the leading '=' -> [(kind, text)], kinds: num str pat bool cell area kw lp rp sep op"""
    toks = []
    i, n = 0, len(text)
    while i < n:
        ch = text[i]
        if ch in ' \t\n\r\x0b\x0c':
            i += 1
            continue
        if not ch.isascii():
            if ch.isspace():
                raise Unsure('non-ascii whitespace')
            if ch.isalnum() or ch == '_':
                raise Unsure('non-ascii word character (could start a sheet prefix)')
            raise LexInvalid(ch)
        if ch == '"':
            j = text.find('"', i + 1)
            if j < 0:
                raise LexInvalid('unterminated string')
            body = text[i + 1:j]
            is_pat = any(c in '?*' and (k == 0 or body[k - 1] != '~') for k, c in enumerate(body))
            toks.append(('pat' if is_pat else 'str', text[i:j + 1]))
            i = j + 1
            continue
        if ch.isdigit():
            j = i
            while j < n and text[j].isdigit():
                j += 1
            if j < n and text[j] == '!':
                raise Unsure('digits before !')
            if j + 1 < n and text[j] == '.' and text[j + 1].isdigit():
                j += 1
                while j < n and text[j].isdigit():
                    j += 1
            if j < n and text[j] == 'e':
                k = j + 1
                if k < n and text[k] == '-':
                    k += 1
                if k < n and text[k].isdigit():
                    while k < n and text[k].isdigit():
                        k += 1
                    j = k
            if j < n and (text[j] == '_' or (text[j].isalpha() and text[j].islower() and False)):
                raise Unsure('word characters after a number')
            toks.append(('num', text[i:j]))
            i = j
            continue
        if ch in "'!":
            raise Unsure('sheet prefix')
        if ch == '$' or ('A' <= ch <= 'Z'):
            j = i
            if text[j] == '$':
                j += 1
            k = j
            while k < n and 'A' <= text[k] <= 'Z':
                k += 1
            letters = text[j:k]
            if not letters:
                raise LexInvalid('$')
            if k < n and text[k] in '!_':
                raise Unsure('sheet prefix')
            if k < n and (text[k].islower() or not text[k].isascii()) and text[k].isalpha():
                # upper-case run directly followed by lower-case letters: no token of the grammar, but a \w*! prefix could match
                if '!' in text[k:]:
                    raise Unsure('possible sheet prefix')
                raise_after = True
            dollar = text[i] == '$'
            m = k
            if m < n and text[m] == '$':
                m += 1
            d = m
            while d < n and text[d].isdigit():
                d += 1
            digits = text[m:d]
            if m > k and not digits:
                raise Unsure('$ without row')
            if digits or (k < n and text[k] == ':'):
                # a reference: cell, or area when ':' follows
                if len(letters) > 3:
                    raise Unsure('over-long column name')
                end = d if digits else k
                if end < n and text[end] == ':':
                    # second endpoint
                    p = end + 1
                    if p < n and text[p] == '$':
                        p += 1
                    q = p
                    while q < n and 'A' <= text[q] <= 'Z':
                        q += 1
                    if q == p or q - p > 3:
                        raise Unsure('malformed area')
                    r = q
                    if r < n and text[r] == '$':
                        r += 1
                    s = r
                    while s < n and text[s].isdigit():
                        s += 1
                    d2 = text[r:s]
                    if r > q and not d2:
                        raise Unsure('$ without row')
                    if bool(d2) != bool(digits):
                        raise Unsure('half-open area')
                    if s < n and (text[s] in ':$!_.' or text[s].isalnum()):
                        raise Unsure('characters glued to an area')
                    toks.append(('area', text[i:s]))
                    i = s
                    continue
                if d < n and (text[d] in '$!_.' or text[d].isalpha()):
                    raise Unsure('characters glued to a cell reference')
                if int(digits) == 0:
                    raise Unsure('row 0')
                toks.append(('cell', text[i:d]))
                i = d
                continue
            if dollar:
                raise Unsure('$ before a word')
            if k < n and (text[k].isalnum() or text[k] == '_'):
                raise Unsure('word glued to an upper-case run')
            if letters in ('TRUE', 'FALSE'):
                if text[k:k + 2] == '()':
                    k += 2
                toks.append(('bool', text[i:k]))
                i = k
                continue
            if letters in KWSET:
                toks.append(('kw', letters))
                i = k
                continue
            raise LexInvalid(f'unknown word {letters}')
        if text[i:i + 2] in OPS2:
            toks.append(('op', text[i:i + 2]))
            i += 2
            continue
        if ch in OPS1:
            toks.append(('op', ch))
            i += 1
            continue
        if ch == '(':
            toks.append(('lp', ch))
            i += 1
            continue
        if ch == ')':
            toks.append(('rp', ch))
            i += 1
            continue
        if ch in SEPS:
            toks.append(('sep', ch))
            i += 1
            continue
        if ch.isalpha() or ch == '_':
            if '!' in text[i:]:
                raise Unsure('possible sheet prefix')
            raise LexInvalid(f'lower-case word at {i}')
        if ch in ':.':
            raise LexInvalid(ch)
        raise LexInvalid(ch)
    return toks


# ------------------------------------------------------------------ reference recogniser (context-free, full back-tracking)

ARITH_OPS = ('+', '-', '*', '/')
CMP_OPS = ('=', '<>', '>', '>=', '<', '<=')


class Recogniser:
    """ends(X, i): the set of positions where a derivation of X starting at token i can end."""

    def __init__(self, toks):
        self.t = toks
        self.n = len(toks)
        self.memo = {}

    def kind(self, i):
        return self.t[i][0] if i < self.n else None

    def is_(self, i, kind, text=None):
        return i < self.n and self.t[i][0] == kind and (text is None or self.t[i][1] == text)

    def ends(self, x, i):
        key = (x, i)
        if key in self.memo:
            return self.memo[key]
        self.memo[key] = frozenset()      # guards (no left recursion in this grammar)
        r = frozenset(getattr(self, 'r_' + x)(i))
        self.memo[key] = r
        return r

    def seq(self, i, *parts):
        """parts: nonterminal names, or ('kind', text|None) terminals.  -> set of end positions"""
        cur = {i}
        for p in parts:
            nxt = set()
            for c in cur:
                if isinstance(p, tuple):
                    if self.is_(c, *p):
                        nxt.add(c + 1)
                else:
                    nxt |= self.ends(p, c)
            cur = nxt
            if not cur:
                break
        return cur

    # operands and expressions
    def r_operand(self, i):
        out = set()
        if self.kind(i) in ('pat', 'str', 'num', 'bool', 'cell', 'area'):
            out.add(i + 1)
        out |= self.ends('cc', i)
        return out

    def r_operator(self, i):
        # % is postfix only (a percent run); two operands need a real operator between them
        return {i + 1} if self.kind(i) == 'op' and self.t[i][1] != '%' else set()

    def r_sign(self, i):
        return {i + 1} if self.is_(i, 'op', '+') or self.is_(i, 'op', '-') else set()

    def r_oneleft(self, i):
        return self.seq(i, 'operand', ('op', '%'), 'oneleft') | self.seq(i, 'operand', ('op', '%'))

    def r_pctrun(self, i):
        return self.seq(i, ('op', '%'), 'pctrun') | self.seq(i, ('op', '%'))

    def r_expr(self, i):
        return (self.seq(i, 'operand', 'operator', 'expr') | self.seq(i, 'sign', 'expr') |
                self.seq(i, 'operand', 'pctrun', 'operator', 'expr') | self.seq(i, 'operand', 'pctrun') |
                self.seq(i, ('lp',), 'expr', ('rp',), 'pctrun', 'operator', 'expr') | self.seq(i, ('lp',), 'expr', ('rp',), 'pctrun') |
                self.seq(i, ('lp',), 'expr', ('rp',), 'operator', 'expr') | self.seq(i, ('lp',), 'expr', ('rp',)) |
                self.ends('operand', i))

    def r_iter(self, i):
        return self.seq(i, 'expr', ('sep',), 'iter') | self.ends('expr', i)

    def r_lit(self, i):
        return {i + 1} if self.kind(i) in ('str', 'num', 'bool') else set()

    def r_lambda(self, i):
        return self.seq(i, 'lit', ('op', '&'), 'expr') | self.ends('lit', i) | self.ends('expr', i)

    def r_area(self, i):
        return {i + 1} if self.kind(i) == 'area' else set()

    def r_cell(self, i):
        return {i + 1} if self.kind(i) == 'cell' else set()

    def r_similar(self, i):
        return self.ends('cell', i) | self.ends('area', i)

    def r_rangecond(self, i):
        return self.seq(i, 'area', ('sep',), 'lambda') | self.seq(i, 'area', ('sep',), 'expr')

    def r_iterrc(self, i):
        return self.seq(i, 'rangecond', ('sep',), 'iterrc') | self.ends('rangecond', i)

    def r_iterm(self, i):
        return (self.seq(i, ('lp',), 'area', ('sep',), 'iterm', ('rp',)) | self.seq(i, 'area', ('sep',), 'iterm') |
                self.ends('area', i))

    def r_me(self, i):
        return self.seq(i, 'area', ('op', '&'), 'me') | self.ends('area', i)

    S = ('sep',)
    SHAPES = {
        'IF': [['expr', S, 'expr', S, 'expr'], ['expr', S, 'expr']],
        'IFERROR': [['expr', S, 'expr']],
        'IFS': [['iter']], 'SUM': [['iter']], 'AVERAGE': [['iter']], 'MIN': [['iter']], 'MAX': [['iter']], 'COUNT': [['iter']],
        'COUNTBLANK': [['iter']], 'AND': [['iter']], 'OR': [['iter']], 'CONCATENATE': [['iter']],
        'SUMIF': [['similar', S, 'lambda'], ['similar', S, 'lambda', S, 'similar']],
        'SUMIFS': [['area', S, 'iterrc']], 'AVERAGEIFS': [['area', S, 'iterrc']],
        'COUNTIFS': [['area', S, 'lambda', S, 'iterrc'], ['area', S, 'lambda']],
        'VLOOKUP': [['expr', S, 'area', S, 'expr', S, 'expr'], ['expr', S, 'area', S, 'expr']],
        'MATCH': [['expr', S, 'area', S, 'expr'], ['expr', S, 'area'], ['expr', S, 'expr', S, 'expr'], ['expr', S, 'me', S, 'expr']],
        'XMATCH': [['expr', S, 'area', S, 'expr', S, 'expr'], ['expr', S, 'area', S, 'expr'], ['expr', S, 'area']],
        'INDEX': [['iterm', S, 'expr', S, 'expr', S, 'expr'], ['iterm', S, 'expr', S, 'expr'], ['iterm', S, 'expr'], ['me', S, 'expr']],
        'ROUND': [['expr', S, 'expr']],
        'ROUNDUP': [['expr', S], ['expr', S, 'expr'], ['expr']],
        'ROUNDDOWN': [['expr', S], ['expr', S, 'expr'], ['expr']],
        'DATE': [['expr', S, 'expr', S, 'expr']], 'DATEDIF': [['expr', S, 'expr', S, 'expr']],
        'EDATE': [['expr', S, 'expr']], 'EOMONTH': [['expr', S, 'expr']],
        'YEAR': [['expr']], 'MONTH': [['expr']], 'DAY': [['expr']], 'VALUE': [['expr']],
        'TODAY': [[]],
        'LEFT': [['expr', S, 'expr'], ['expr']], 'RIGHT': [['expr', S, 'expr'], ['expr']],
        'MID': [['expr', S, 'expr', S, 'expr']],
        'SEARCH': [['expr', S, 'expr'], ['expr', S, 'expr', S, 'expr']],
        'TEXT': [['expr', S, 'expr']],
        'ADDRESS': [['expr', S, 'expr'], ['expr', S, 'expr', S, 'iter']],
        'NETWORKDAYS': [['expr', S, 'expr'], ['expr', S, 'expr', S, 'area']],
        'COLUMN': [[], ['cell'], ['area']],
    }

    def r_cc(self, i):
        if self.kind(i) != 'kw':
            return set()
        out = set()
        for shape in self.SHAPES[self.t[i][1]]:
            out |= self.seq(i + 1, ('lp',), *shape, ('rp',))
        return out


def in_grammar(toks):
    r = Recogniser(toks)
    return len(toks) in r.ends('expr', 0)


def has_valid_proper_prefix(toks):
    r = Recogniser(toks)
    return any(2 <= e < len(toks) for e in r.ends('expr', 0))


def verdict(text):
    """-> ('valid'|'invalid'|'unsure', tokens|None, why)"""
    if not text.startswith('='):
        return 'unsure', None, 'no leading ='
    try:
        toks = ref_lex(text[1:])
    except Unsure as e:
        return 'unsure', None, str(e)
    except LexInvalid as e:
        return 'invalid', None, f'lexer: {e}'
    if not toks:
        return 'invalid', toks, 'empty'
    try:
        ok = in_grammar(toks)
    except RecursionError:
        return 'unsure', toks, 'recogniser recursion'
    return ('valid' if ok else 'invalid'), toks, ''


# ------------------------------------------------------------------ value reference

KIND_MAP = {'num': 'num', 'str': 'str', 'pat': 'str', 'bool': 'bool', 'cell': 'ref', 'area': 'area', 'kw': 'func',
            'lp': 'lp', 'rp': 'rp', 'sep': 'sep'}


def to_pratt_tokens(toks):
    out = []
    for k, t in toks:
        if k == 'op':
            out.append(('pct', '%') if t == '%' else ('op', t))
        elif k == 'bool':
            out.append(('bool', t[:4] if t.startswith('TRUE') else t[:5]))
        elif k == 'cell':
            if '$' in t:
                t = t.replace('$', '')
            out.append(('ref', t))
        else:
            out.append((KIND_MAP[k], t))
    return out


def reference_value(toks):
    """-> (True, value) when the statement determines the value of the whole text, else (False, why)"""
    try:
        ast = F.parse(to_pratt_tokens(toks), check_funcs=False)
    except (F.ParseError, RecursionError, IndexError, KeyError, TypeError) as e:
        return False, 'no-pratt-parse'
    if any(k == 'pat' for k, _ in toks):
        return False, 'pattern-literal'
    for node in F.walk(ast):
        if node[0] == 'call' and any(a[0] == 'omit' for a in node[2]):
            return False, 'omitted-argument'
        if node[0] == 'num' and ('.' in node[1] or 'e' in node[1]) and len(node[1]) > 12:
            return False, 'long-literal'
    if c01.triggers(F.fix_parens(F.strip_parens(ast))) or c01.triggers(ast):
        return False, 'c01-open-finding-trigger'
    try:
        v = F.Evaluator(lambda ref: DATA_VALUES.get(ref, F.BLANK)).value(ast)
    except F.OutOfDomain as e:
        return False, 'out-of-domain'
    except (OverflowError, ZeroDivisionError, RecursionError):
        return False, 'arith'
    if isinstance(v, F.Err):
        return False, 'error-value'
    if isinstance(v, float) and (v != v or abs(v) > 1e15):
        return False, 'magnitude'
    if isinstance(v, int) and not isinstance(v, bool) and abs(v) > 10 ** 15:
        return False, 'magnitude'
    return True, v


# ------------------------------------------------------------------ the fixed data workbook

DATA = {
    'S': {'A1': 2, 'A2': 3, 'A3': 5, 'A4': 7, 'A5': 11, 'A6': 13,
          'B1': 'pear', 'B2': 'fig', 'B3': 'kiwi', 'B4': 'plum', 'B5': 'fig', 'B6': 'apple',
          'C1': {'$dt': '2021-03-15T00:00:00'}, 'C2': {'$dt': '2022-11-30T00:00:00'}, 'C3': {'$dt': '2024-02-29T00:00:00'},
          'D1': 10, 'D2': 20, 'D3': 30, 'D4': 40, 'D5': 50, 'D6': 60,
          'E1': 1.5, 'E2': 2.25, 'E3': 0, 'E4': -4, 'E5': 100, 'E6': 0.125},
    'T2': {'A1': 17, 'A2': 19, 'A3': 23, 'B1': 29, 'B2': 31, 'B3': 37},
    'My Sheet': {'A1': 41, 'A2': 43, 'B1': 47, 'B2': 53},
}
DATA_VALUES = {k: wbk.dec(v) for k, v in DATA['S'].items()}
FIRST_COL = 60
NCOLS = 1


def family_model(texts):
    sheets = [{'title': t, 'cells': dict(c)} for t, c in DATA.items()]
    addrs = []
    for i, tx in enumerate(texts):
        a = wbk.a1(FIRST_COL + i % NCOLS, 1 + i // NCOLS)
        sheets[0]['cells'][a] = tx
        addrs.append(a)
    return {'sheets': sheets}, addrs


def read_back(path, addrs):
    """What openpyxl itself reads from the written file (xml normalisation may change a text): harness-side filter."""
    wb = wbk.openpyxl.load_workbook(path, read_only=False)
    ws = wb['S']
    out = [ws[a].value for a in addrs]
    wb.close()
    return out


def product_outcomes(texts):
    """[(translate_outcome, eval_outcome|None)] through the public facade, one entry-point translation per text."""
    model, addrs = family_model(texts)
    path = wbk.write_xlsx(model)
    try:
        back = read_back(path, addrs)
        res = []
        for tx, a, b in zip(texts, addrs, back):
            if b != tx:
                res.append((('skipped', 'xlsx-changed-the-text'), None))
                continue
            c, r = wbk.split_a1(a)
            ent = ('S', wbk.get_column_letter(c), str(r))
            o = wbk.outcome(lambda: wbk.translate_path(path, entry=ent))
            ev = None
            if o[0] == 'value':
                src = o[1]

                def go():
                    cls = wbk.load_source(src)
                    return wbk.Executor().set_executed_class(class_object=cls).get_cell(wbk.Cell(*ent)).value
                ev = wbk.outcome(go)
            res.append((o, ev))
        return res
    finally:
        try:
            import os
            os.unlink(path)
        except OSError:
            pass


def same_product_value(a, b):
    if type(a).__name__ == 'EmptyCell' or type(b).__name__ == 'EmptyCell':
        return type(a).__name__ == type(b).__name__
    if isinstance(a, float) and isinstance(b, float) and a != a and b != b:
        return True
    return type(a) is type(b) and a == b


def norm_tokens(toks):
    return [(k, ',' if k == 'sep' and t in (',', ';') else t) for k, t in toks]


def changed_positions(canon, text):
    return sum(1 for a, b in zip(canon, text) if a != b) + abs(len(canon) - len(text))


def run_texts(items, rec=None):
    """items: [{'t': text, 'k': kind}] -> failures.  All texts of one call share a workbook (one family)."""
    texts = [it['t'] for it in items]
    verdicts = [verdict(t) for t in texts]
    outs = product_outcomes(texts)
    fails = []
    groups = {}
    canon_text = next((it['t'] for it in items if it['k'] == 'canon'), None)
    for it, (vd, toks, why), (o, ev) in zip(items, verdicts, outs):
        tx, kind = it['t'], it['k']
        if o[0] == 'skipped':
            if rec:
                rec.count('skipped:' + o[1])
            continue
        acc = 'accepted' if o[0] == 'value' else 'rejected' if (o[0] == 'lib' and o[1] == 'E2PyclParserException') else o[0]
        if rec:
            nt = False
            if vd == 'invalid' and toks and has_valid_proper_prefix(toks):
                nt = True
            elif kind in ('ws', 'sep') and canon_text is not None and changed_positions(canon_text, tx) >= 3:
                nt = True
            elif kind == 'arity' and vd == 'invalid':
                nt = True
            rec.case({'t': tx}, nt, [f'kind:{kind}', f'verdict:{vd}', f'{vd}:{acc}'] + ([f'fn:{it["fn"]}'] if 'fn' in it else []),
                     sample={'text': tx, 'kind': kind, 'verdict': vd, 'product': acc})
        if o[0] == 'timeout':
            continue

        def fail(rel, bucket, expected, actual, extra=None, texts_=None):
            fails.append({'case': {'texts': texts_ or [tx]}, 'expected': expected, 'actual': actual, 'relation': rel,
                          'bucket': bucket, 'extra': {'kind': kind, 'verdict': vd, 'why': why, **(extra or {})}})
        if o[0] == 'foreign' or (o[0] == 'lib' and o[1] != 'E2PyclParserException'):
            fail('whole-or-parser-exception', f'foreign:{o[1]}:{vd}', 'translation or E2PyclParserException', wbk.show_outcome(o))
            continue
        if it.get('force') == 'invalid':
            # a text of the hand-written list: the documented token forms leave no doubt that it is no formula
            vd, toks = 'invalid', None
        elif 'force_value' in it:
            if o[0] == 'value' and ev is not None and ev[0] != 'timeout':
                same, w = F.same_value(it['force_value'], ev[1]) if ev[0] == 'value' else (False, 'raises')
                if not same:
                    fail('value-of-the-whole-text', 'value:differs:explicit', F.show_ref(it['force_value']), wbk.show_outcome(ev), {'cmp': w})
            elif o[0] != 'value':
                fail('value-of-the-whole-text', 'explicit-valid-rejected', F.show_ref(it['force_value']), wbk.show_outcome(o))
            continue
        if vd == 'unsure':
            continue
        if vd == 'invalid':
            if o[0] == 'value':
                fail('outside-the-grammar-is-rejected', f'invalid-accepted:{kind if kind != "arity" else "arity:" + it.get("fn", "")}',
                     'E2PyclParserException', ['accepted', wbk.show_outcome(ev) if ev else None],
                     {'tokens': toks, 'valid_prefix': bool(toks and has_valid_proper_prefix(toks))})
            continue
        # inside the grammar
        if o[0] != 'value':
            if rec:
                rec.count('valid_rejected')
                rec.count('valid_rejected:' + kind)
                if rec.counters['valid_rejected'] <= 40:
                    rec.count('valid_rejected_example:' + tx[:60])
        key = env.chash(norm_tokens(toks))
        groups.setdefault(key, []).append((it, o, ev, toks))
        if o[0] == 'value' and ev is not None and ev[0] != 'timeout':
            ok, ref = reference_value(toks)
            if not ok:
                if rec:
                    rec.count('value_not_asserted:' + ref)
                continue
            if rec:
                rec.count('value_asserted')
            if ev[0] != 'value':
                fail('value-of-the-whole-text', f'value:raises:{ev[1]}', F.show_ref(ref), wbk.show_outcome(ev))
            else:
                same, w = F.same_value(ref, ev[1])
                if not same:
                    fail('value-of-the-whole-text', 'value:differs', F.show_ref(ref), wbk.show(ev[1]), {'cmp': w})
    # (c) same token list => same outcome
    for key, members in groups.items():
        if len(members) < 2:
            continue
        base = members[0]
        for m in members[1:]:
            (it0, o0, ev0, _), (it1, o1, ev1, _) = base, m
            if 'timeout' in (o0[0], o1[0]) or (ev0 and ev0[0] == 'timeout') or (ev1 and ev1[0] == 'timeout'):
                continue
            rel = 'separator-does-not-change-the-result' if 'sep' in (it0['k'], it1['k']) else 'whitespace-does-not-change-the-result'
            pair = [it0['t'], it1['t']]
            if (o0[0] == 'value') != (o1[0] == 'value'):
                fails.append({'case': {'texts': pair}, 'expected': 'same outcome class', 'actual': [wbk.show_outcome(o0) if o0[0] != 'value' else 'accepted',
                                                                                                     wbk.show_outcome(o1) if o1[0] != 'value' else 'accepted'],
                              'relation': rel, 'bucket': 'variant:accept-vs-reject:' + it1['k'], 'extra': {'kinds': [it0['k'], it1['k']]}})
                continue
            if o0[0] != 'value':
                continue
            if ev0[0] != ev1[0] or (ev0[0] != 'value' and ev0[1] != ev1[1]):
                fails.append({'case': {'texts': pair}, 'expected': wbk.show_outcome(ev0), 'actual': wbk.show_outcome(ev1), 'relation': rel,
                              'bucket': 'variant:outcome-class:' + it1['k'], 'extra': {'kinds': [it0['k'], it1['k']]}})
            elif ev0[0] == 'value' and not same_product_value(ev0[1], ev1[1]):
                if isinstance(ev0[1], (datetime_types)) or isinstance(ev1[1], datetime_types):
                    continue
                fails.append({'case': {'texts': pair}, 'expected': wbk.show(ev0[1]), 'actual': wbk.show(ev1[1]), 'relation': rel,
                              'bucket': 'variant:value:' + it1['k'], 'extra': {'kinds': [it0['k'], it1['k']]}})
    return fails


import datetime as _dt  # noqa: E402
datetime_types = (_dt.datetime, _dt.date)


def run_case(case):
    if 'ref_to_bad' in case:
        global BAD_SNIPPETS
        keep = BAD_SNIPPETS
        try:
            BAD_SNIPPETS = [case['ref_to_bad']]
            return [f for f in run_ref_to_bad(None)]
        finally:
            BAD_SNIPPETS = keep
    texts = case['texts']
    explicit = {it['t']: it for it in EXPLICIT}
    if len(texts) == 1 and texts[0] in explicit:
        items = [explicit[texts[0]]]
    elif len(texts) == 1:
        items = [{'t': texts[0], 'k': case.get('kind', 'mut')}]
    else:
        items = [{'t': texts[0], 'k': 'canon'}] + [{'t': t, 'k': case.get('kind', 'ws')} for t in texts[1:]]
    fails = run_texts(items)
    return fails


def shrink_candidates(case):
    if 'ref_to_bad' in case:
        return
    texts = case['texts']
    if len(texts) == 1 and texts[0] in {it['t'] for it in EXPLICIT}:
        return
    if len(texts) > 1:
        for i in range(len(texts)):
            yield {**case, 'texts': texts[:i] + texts[i + 1:]}
    for i, t in enumerate(texts):
        body = t[1:]
        # drop a balanced chunk first, then single characters
        for ln in (8, 4, 2, 1):
            for j in range(0, max(0, len(body) - ln + 1)):
                cand = '=' + body[:j] + body[j + ln:]
                if cand != t:
                    yield {**case, 'texts': texts[:i] + [cand] + texts[i + 1:]}


# ------------------------------------------------------------------ generators

def render_tokens(toks, gaps=None, trail=''):
    """own renderer over c05 token kinds; without gaps: minimal spacing that keeps the tokens apart"""
    out = ['=']
    for i, (k, t) in enumerate(toks):
        g = gaps[i] if gaps is not None and i < len(gaps) else ''
        if i and not g and glue_risk(toks[i - 1], (k, t)):
            g = ' '
        out.append(g)
        out.append(t)
    return ''.join(out) + trail


def glue_risk(a, b):
    ka, ta = a
    kb, tb = b
    wordy = ('num', 'bool', 'cell', 'area', 'kw')
    if ka in wordy and kb in wordy:
        return True
    if ka == 'op' and kb == 'op' and (ta + tb) in OPS2:
        return True
    if ka == 'bool' and kb == 'lp':
        return True
    if ka in ('cell', 'area', 'num') and kb == 'op' and False:
        return True
    if ka == 'num' and kb in ('cell', 'kw', 'bool', 'area'):
        return True
    return False


def ast_tokens(ast):
    """AST (vf.ref.formula kinds + ['plist', [areas]] + ['raw', kind, text]) -> c05 tokens"""
    k = ast[0]
    if k == 'num':
        return [('num', ast[1])]
    if k == 'str':
        body = ast[1]
        is_pat = any(c in '?*' and (i == 0 or body[i - 1] != '~') for i, c in enumerate(body))
        return [('pat' if is_pat else 'str', '"' + body + '"')]
    if k == 'bool':
        return [('bool', ast[1] if isinstance(ast[1], str) else ('TRUE' if ast[1] else 'FALSE'))]
    if k == 'ref':
        return [('cell', ast[1])]
    if k == 'area':
        return [('area', ast[1])]
    if k == 'omit':
        return []
    if k == 'un':
        return [('op', ast[1])] + ast_tokens(ast[2])
    if k == 'pct':
        return ast_tokens(ast[1]) + [('op', '%')]
    if k == 'bin':
        return ast_tokens(ast[2]) + [('op', ast[1])] + ast_tokens(ast[3])
    if k == 'par':
        return [('lp', '(')] + ast_tokens(ast[1]) + [('rp', ')')]
    if k == 'plist':
        out = [('lp', '(')]
        for i, a in enumerate(ast[1]):
            if i:
                out.append(('sep', ','))
            out += ast_tokens(a)
        return out + [('rp', ')')]
    if k == 'call':
        out = [('kw', ast[1]), ('lp', '(')]
        for i, a in enumerate(ast[2]):
            if i:
                out.append(('sep', ','))
            out += ast_tokens(a)
        return out + [('rp', ')')]
    raise ValueError(ast)


NUMS = ['0', '1', '2', '3', '7', '10', '12', '2.5', '0.25', '100', '1e2', '3e-1']
CELLS = ['A1', 'A2', 'A3', 'B1', 'B2', 'D1', 'D2', 'E1', 'E4', '$A$1', 'A$2', '$D3']
AREAS = ['A1:A6', 'B1:B6', 'D1:D6', 'A1:B3', 'A1:D6', 'D1:E6', 'A:A', 'D:D', '$A$1:$A$6', 'A1:A3']
NUMAREAS = ['A1:A6', 'D1:D6', 'A1:A3', 'D1:E6', 'E1:E6', '$A$1:$A$6']
WORDS = ['pear', 'fig', 'a', 'x y', 'kiwi', '', 'p*', 'f?g', '>3', '<>fig', '1', 'it~*s', 'a_xlfn.b', '_xlws.ab', '=1+', "o'k", 'A1', 'SUM(']
DATES = ['C1', 'C2', 'C3']


def seed_strategy():
    from hypothesis import strategies as st
    num = st.sampled_from(NUMS).map(lambda t: ['num', t])
    cell = st.sampled_from(CELLS).map(lambda t: ['ref', t])
    numcell = st.sampled_from(['A1', 'A2', 'A3', 'D1', 'E1', 'E4', '$A$1']).map(lambda t: ['ref', t])
    area = st.sampled_from(AREAS).map(lambda t: ['area', t])
    numarea = st.sampled_from(NUMAREAS).map(lambda t: ['area', t])
    word = st.sampled_from(WORDS).map(lambda t: ['str', t])
    boolean = st.sampled_from(['TRUE', 'FALSE', 'TRUE()', 'FALSE()']).map(lambda t: ['bool', t])
    date = st.sampled_from(DATES).map(lambda t: ['ref', t])
    nleaf = st.one_of(num, num, numcell, numcell)

    def next_(ch):
        return st.one_of(
            st.tuples(st.sampled_from(ARITH_OPS), ch, ch).map(lambda t: ['bin', t[0], t[1], t[2]]),
            st.tuples(st.sampled_from(ARITH_OPS), ch, ch).map(lambda t: ['bin', t[0], t[1], t[2]]),
            st.tuples(st.sampled_from(['-', '+']), ch).map(lambda t: ['un', t[0], t[1]]),
            ch.map(lambda x: ['par', x]),
            st.one_of(num, numcell).map(lambda x: ['pct', x]),
            st.tuples(st.sampled_from(['SUM', 'MAX', 'MIN']), st.lists(ch, min_size=1, max_size=3)).map(lambda t: ['call', t[0], t[1]]),
            st.tuples(st.sampled_from(CMP_OPS), ch, ch, ch, ch).map(lambda t: ['call', 'IF', [['bin', t[0], t[1], t[2]], t[3], t[4]]]),
        )
    numexp = st.recursive(nleaf, next_, max_leaves=7)
    cond = st.one_of(st.tuples(st.sampled_from(CMP_OPS), numexp, numexp).map(lambda t: ['bin', t[0], t[1], t[2]]), boolean)
    text = st.one_of(word, st.sampled_from(['B1', 'B2', 'B3']).map(lambda t: ['ref', t]),
                     st.tuples(word, word).map(lambda t: ['bin', '&', t[0], t[1]]))
    crit = st.one_of(word, num, st.tuples(st.sampled_from(['>', '<', '>=', '<>', '=']), numexp).map(lambda t: ['bin', '&', ['str', t[0]], t[1]]), numcell)
    anyarg = st.one_of(numexp, text, area, cond)

    def call(name, *args):
        return st.tuples(*args).map(lambda t: ['call', name, list(t)])

    def calln(name, arg, lo=1, hi=4):
        return st.lists(arg, min_size=lo, max_size=hi).map(lambda a: ['call', name, a])
    pairs = st.lists(st.tuples(numarea, crit), min_size=1, max_size=3).map(lambda ps: [x for p in ps for x in p])
    omit = st.just(['omit'])
    fn = st.one_of(
        call('IF', cond, numexp, numexp), call('IF', cond, numexp), call('IFERROR', numexp, numexp),
        st.lists(st.tuples(cond, numexp), min_size=1, max_size=3).map(lambda ps: ['call', 'IFS', [x for p in ps for x in p]]),
        calln('SUM', st.one_of(numexp, numarea)), calln('AVERAGE', st.one_of(numexp, numarea)), calln('MIN', st.one_of(numexp, numarea)),
        calln('MAX', st.one_of(numexp, numarea)), calln('COUNT', st.one_of(numexp, area)), calln('COUNTBLANK', area, 1, 2),
        calln('AND', cond), calln('OR', cond), calln('CONCATENATE', st.one_of(text, numexp)),
        call('SUMIF', numarea, crit), call('SUMIF', numarea, crit, numarea), call('SUMIF', numcell, crit),
        st.tuples(numarea, pairs).map(lambda t: ['call', 'SUMIFS', [t[0]] + t[1]]),
        st.tuples(numarea, pairs).map(lambda t: ['call', 'AVERAGEIFS', [t[0]] + t[1]]),
        pairs.map(lambda p: ['call', 'COUNTIFS', p]),
        call('VLOOKUP', numexp, st.just(['area', 'A1:D6']), st.sampled_from(['1', '2', '4']).map(lambda t: ['num', t])),
        call('VLOOKUP', numexp, st.just(['area', 'A1:D6']), st.just(['num', '2']), boolean),
        call('MATCH', numexp, numarea), call('MATCH', numexp, numarea, st.sampled_from(['0', '1']).map(lambda t: ['num', t])),
        call('MATCH', numexp, st.tuples(numarea, numarea).map(lambda t: ['bin', '&', t[0], t[1]]), st.just(['num', '0'])),
        call('XMATCH', numexp, numarea), call('XMATCH', numexp, numarea, st.just(['num', '0'])),
        call('XMATCH', numexp, numarea, st.just(['num', '0']), st.sampled_from([['num', '1'], ['un', '-', ['num', '1']]])),
        call('INDEX', area, nleaf), call('INDEX', area, nleaf, nleaf), call('INDEX', area, area, nleaf, nleaf, nleaf),
        call('INDEX', st.tuples(area, area).map(lambda t: ['plist', list(t)]), nleaf, nleaf, nleaf),
        call('INDEX', st.tuples(numarea, numarea).map(lambda t: ['bin', '&', t[0], t[1]]), nleaf),
        call('ROUND', numexp, nleaf), call('ROUNDUP', numexp), call('ROUNDUP', numexp, nleaf), call('ROUNDUP', numexp, omit),
        call('ROUNDDOWN', numexp), call('ROUNDDOWN', numexp, nleaf), call('ROUNDDOWN', numexp, omit),
        call('DATE', st.just(['num', '2022']), nleaf, nleaf), call('DATEDIF', date, date, st.sampled_from(['D', 'M', 'Y']).map(lambda t: ['str', t])),
        call('EDATE', date, nleaf), call('EOMONTH', date, nleaf), call('YEAR', date), call('MONTH', date), call('DAY', date),
        st.just(['call', 'YEAR', [['call', 'TODAY', []]]]),
        call('NETWORKDAYS', date, date), call('NETWORKDAYS', date, date, st.just(['area', 'C1:C3'])),
        call('LEFT', text), call('LEFT', text, nleaf), call('RIGHT', text), call('RIGHT', text, nleaf), call('MID', text, nleaf, nleaf),
        call('SEARCH', text, text), call('SEARCH', text, text, nleaf), call('VALUE', st.sampled_from(['12', '1.5', '7']).map(lambda t: ['str', t])),
        call('TEXT', numexp, st.sampled_from(['0', '0.00']).map(lambda t: ['str', t])),
        call('ADDRESS', nleaf, nleaf), call('ADDRESS', nleaf, nleaf, nleaf), call('ADDRESS', nleaf, nleaf, nleaf, boolean),
        st.just(['call', 'COLUMN', []]), call('COLUMN', cell), call('COLUMN', area),
    )
    fnexp = st.one_of(fn, st.tuples(st.sampled_from(ARITH_OPS + ('&',) + CMP_OPS), fn, numexp).map(lambda t: ['bin', t[0], t[1], t[2]]),
                      st.tuples(st.sampled_from(ARITH_OPS), numexp, fn).map(lambda t: ['bin', t[0], t[1], t[2]]),
                      fn.map(lambda x: ['par', x]), fn.map(lambda x: ['un', '-', x]),
                      st.tuples(cond, fn, fn).map(lambda t: ['call', 'IF', list(t)]),
                      st.lists(fn, min_size=1, max_size=2).map(lambda a: ['call', 'SUM', a]))
    top = st.one_of(numexp, numexp, cond, text, fnexp, fnexp, fnexp)
    return top


VOCAB = ([('num', t) for t in ('1', '2', '3.5', '1e2')] + [('str', '"a"'), ('str', '""'), ('pat', '"a*"'), ('bool', 'TRUE'), ('bool', 'FALSE()')] +
         [('cell', 'A1'), ('cell', '$B$2'), ('area', 'A1:A3'), ('area', 'A:B')] + [('kw', k) for k in KEYWORDS] +
         [('op', o) for o in OPS1 + OPS2] + [('lp', '('), ('rp', ')'), ('sep', ','), ('sep', ';'), ('sep', '~')])
CHAR_ALPHABET = '()",;+-*/&%<>= 0123456789ABEFMSUIX.e~:$\t\n\'!_ax#^{}[]@\\'


def mutate_tokens(toks, rnd):
    toks = list(toks)
    for _ in range(rnd.choice([1, 1, 1, 2])):
        how = rnd.choice(['del', 'ins', 'dup', 'swap', 'rep', 'append', 'prepend', 'lp', 'rp', 'dblop', 'addarg', 'droparg', 'adjacent'])
        n = len(toks)
        if how == 'del' and n > 1:
            del toks[rnd.randrange(n)]
        elif how == 'ins':
            toks.insert(rnd.randrange(n + 1), rnd.choice(VOCAB))
        elif how == 'dup' and n:
            i = rnd.randrange(n)
            toks.insert(i, toks[i])
        elif how == 'swap' and n > 1:
            i = rnd.randrange(n - 1)
            toks[i], toks[i + 1] = toks[i + 1], toks[i]
        elif how == 'rep' and n:
            toks[rnd.randrange(n)] = rnd.choice(VOCAB)
        elif how == 'append':
            toks.append(rnd.choice(VOCAB))
        elif how == 'prepend':
            toks.insert(0, rnd.choice(VOCAB))
        elif how == 'lp':
            toks.insert(rnd.randrange(n + 1), ('lp', '('))
        elif how == 'rp':
            toks.insert(rnd.randrange(n + 1), ('rp', ')'))
        elif how == 'dblop':
            idx = [i for i, t in enumerate(toks) if t[0] == 'op']
            if idx:
                i = rnd.choice(idx)
                toks.insert(i, rnd.choice([toks[i], ('op', rnd.choice(OPS1 + OPS2))]))
        elif how == 'addarg':
            idx = [i for i, t in enumerate(toks) if t[0] == 'rp']
            if idx:
                i = rnd.choice(idx)
                toks[i:i] = [('sep', ','), rnd.choice([('num', '1'), ('cell', 'A1'), ('area', 'A1:A3'), ('str', '"a"')])]
        elif how == 'droparg':
            idx = [i for i, t in enumerate(toks) if t[0] == 'sep']
            if idx:
                i = rnd.choice(idx)
                j = i + 1
                depth = 0
                while j < len(toks) and not (depth == 0 and toks[j][0] in ('sep', 'rp')):
                    depth += toks[j][0] == 'lp'
                    depth -= toks[j][0] == 'rp'
                    j += 1
                del toks[i:j]
        elif how == 'adjacent':
            idx = [i for i, t in enumerate(toks) if t[0] in ('num', 'str', 'cell', 'bool', 'rp')]
            if idx:
                i = rnd.choice(idx)
                toks.insert(i + 1, rnd.choice([('num', '3'), ('cell', 'A2'), ('str', '"b"'), ('lp', '('), ('kw', 'SUM')]))
    return toks


JUNK_STRINGS = ['_xlfn.', '_xlws.', '_xlfn._xlws.', '_xlpm.', '@', '[1]', '{1,2}', '#REF!', '#N/A', 'E+', "''", '..', '$$', 'R1C1', '0x', '1E5', 'TRUE', '--', '=', '==', '\r', '\u00a0', ' \u2009', '\u200b']


def mutate_chars(text, rnd):
    body = text[1:]
    for _ in range(rnd.choice([1, 1, 2])):
        how = rnd.choice(['del', 'ins', 'dup', 'quote', 'rep', 'insstr'])
        n = len(body)
        if how == 'del' and n > 1:
            i = rnd.randrange(n)
            body = body[:i] + body[i + 1:]
        elif how == 'ins':
            i = rnd.randrange(n + 1)
            body = body[:i] + rnd.choice(CHAR_ALPHABET) + body[i:]
        elif how == 'dup' and n:
            i = rnd.randrange(n)
            body = body[:i] + body[i] + body[i:]
        elif how == 'quote':
            i = rnd.randrange(n + 1)
            body = body[:i] + rnd.choice(['"', '""']) + body[i:]
        elif how == 'insstr':
            # character sequences that spreadsheet files carry around formulas (compatibility prefixes, array braces, error names, ...)
            i = rnd.randrange(n + 1)
            body = body[:i] + rnd.choice(JUNK_STRINGS) + body[i:]
        elif how == 'rep' and n:
            i = rnd.randrange(n)
            body = body[:i] + rnd.choice(CHAR_ALPHABET) + body[i + 1:]
    return '=' + body


GAP = ['', '', ' ', ' ', '  ', '\t', '\n', ' \n ', '\n\n']


def family(ast, rnd):
    toks = ast_tokens(ast)
    canon = render_tokens(toks)
    items = [{'t': canon, 'k': 'canon'}]
    seen = {canon}

    def add(t, k):
        if t not in seen and len(t) < 400:
            seen.add(t)
            items.append({'t': t, 'k': k})
    for _ in range(3):
        gaps = [rnd.choice(GAP) for _ in toks]
        add(render_tokens(toks, gaps, rnd.choice(['', '', ' ', '\n', ' \t '])), 'ws')
    add('=' + rnd.choice([' ', '\n', '  ']) + canon[1:] + rnd.choice([' ', '']), 'ws')
    if any(k == 'sep' for k, _ in toks):
        for _ in range(2):
            add(render_tokens([(k, rnd.choice([',', ';']) if k == 'sep' else t) for k, t in toks]), 'sep')
        add(render_tokens([(k, ';' if k == 'sep' else t) for k, t in toks], [rnd.choice(GAP) for _ in toks]), 'sep')
    for _ in range(5):
        add(render_tokens(mutate_tokens(toks, rnd), [rnd.choice(['', '', '', ' ']) for _ in range(len(toks) + 4)]), 'mut')
    # the classical truncation shapes: a complete formula followed by something
    tail = rnd.choice([[('rp', ')')], [('num', '3')], [('cell', 'A2')], [('sep', ','), ('num', '1')], [('op', '+')], [('lp', '(')],
                       [('str', '"b"')], [('lp', '('), ('num', '2'), ('rp', ')')], [('op', '=')], [('kw', 'SUM'), ('lp', '('), ('num', '1'), ('rp', ')')]])
    add(render_tokens(toks + tail), 'mut')
    for _ in range(3):
        add(mutate_chars(canon, rnd), 'chr')
    return items


ARITY_ARGS = [('num', '1'), ('cell', 'A1'), ('area', 'A1:A3'), ('str', '"a"'), None]


def arity_items(fn, rnd, per_n=6):
    shapes = Recogniser.SHAPES[fn]
    mx = max((sum(1 for p in s if p != ('sep',)) for s in shapes), default=0)
    if any('iter' in s or 'iterrc' in s for s in shapes):
        mx = max(mx, 4)
    items = []
    seen = set()
    for n in range(0, mx + 3):
        for _ in range(per_n if n else 1):
            toks = [('kw', fn), ('lp', '(')]
            for i in range(n):
                if i:
                    toks.append(('sep', rnd.choice([',', ';'])))
                a = rnd.choice(ARITY_ARGS)
                if a is not None:
                    toks.append(a)
            toks.append(('rp', ')'))
            t = render_tokens(toks)
            if t not in seen:
                seen.add(t)
                items.append({'t': t, 'k': 'arity', 'fn': fn})
    return items


def soup_items(rnd, n=24):
    items = []
    for _ in range(n):
        toks = [rnd.choice(VOCAB) for _ in range(rnd.randint(1, 7))]
        items.append({'t': render_tokens(toks, [rnd.choice(['', ' ']) for _ in toks]), 'k': 'soup'})
    return items


BAD_SNIPPETS = ['1%2', '1 2', '1+', '+', '1+*2', '(1', '1)', '"a""b"', 'SUM(1,2', 'SUM(1,,2)', 'IF(1,2,3,4)', 'ROUND(1)', 'A1:B', 'A1 B1', '1=', '=1', 'SUM()',
                'LEFT("a",1,2)', 'TRUE ()', '5%5%', '1..2', 'A1:B2:C3', 'SUM(1 2)', '(1)(2)', '1<>', '<>1', '"a"&', 'foo(1)', 'x', '#REF!', '1e', 'A', '$',
                'SUM(A1:A3', 'VLOOKUP(1,A1,1)', 'MATCH()', 'TODAY(1)', 'DATE(1,2)', 'IFERROR(1)', 'IFS()', '1+2_xlfn.', 'SU_xlfn.M(1,2)', '_xlfn.SUM(1,2)', 'A_xlws.B1', 'SUM(1,2)_xlfn.', '{1,2}', '@A1', '1\u00a0+2', '1\u200b']
WRAPPERS = ['{x}', '({x})', '-{x}', '1+{x}', '{x}+1', '"a"&{x}', '{x}=1', 'IFERROR({x},7)', 'IFERROR(7,{x})', 'IF(1,{x},2)', 'IF({x},1,2)', 'IF(0,1,{x})', 'IFS(1,{x})',
            'SUM(1,{x})', 'SUM({x},1)', 'MAX({x})', 'ROUND({x},1)', 'ROUND(1,{x})', 'LEFT({x},1)', 'CONCATENATE("a",{x})', 'AND({x})', 'COUNT({x})', 'COUNTIFS(A1:A3,{x})',
            'SUMIF(A1:A3,{x})', 'VLOOKUP({x},A1:B3,2)', 'INDEX(A1:B3,{x},1)', 'DATE(2020,{x},1)', 'VALUE({x})', 'TEXT({x},"0")', 'IFERROR(IFERROR({x},1),2)', 'IF(1,IF(1,{x}))']


def wrapped_items(part, parts):
    """every snippet that is outside the grammar inside every expression position: the whole text must be rejected"""
    items = []
    n = 0
    for w in WRAPPERS:
        for b in BAD_SNIPPETS:
            n += 1
            if n % parts == part:
                items.append({'t': '=' + w.replace('{x}', b), 'k': 'wrapped'})
    return items


def run_ref_to_bad(rec):
    """a malformed formula in a cell that other formulas refer to - directly, through areas, inside IFERROR / IF / SUM: whichever cell
    the translation starts from, it must end in the parser exception (whole file and every entry that reaches the cell)"""
    fails = []
    users = ['=D9+1', '=IFERROR(D9,7)', '=IFERROR(D9+1,7)', '=IF(1,D9,2)', '=IF(0,2,D9)', '=SUM(D8:D10)', '=SUM(D:D)', '=IFERROR(SUM(D8:D10),0)', '=INDEX(D8:D10,2)',
             '=VLOOKUP(1,A1:D9,4)', '=COUNTIFS(D8:D10,1)', '=IFERROR(IF(D9>1,1,2),3)', '=MAX(1,D9)', '=D9', '=-D9', '="a"&D9', '=IFERROR(7,D9)', '=IFS(1,D9)']
    # the same referencing formulas over a well-formed D9 first and last: what an earlier translation in this process saw of D9 must not
    # decide whether the text that stands there now is consumed (the values of the last round are asserted)
    good_last = {'=D9+1': 14, '=D9': 13, '=-D9': -13, '=MAX(1,D9)': 13, '="a"&D9': 'a13', '=IFERROR(D9,7)': 13, '=IFERROR(D9+1,7)': 14, '=IF(1,D9,2)': 13,
                 '=SUM(D8:D10)': 13, '=INDEX(D8:D10,2)': 13, '=IFS(1,D9)': 13}
    for bad in ['1+2'] + BAD_SNIPPETS + ['1+2+10']:
        if rec is not None and rec.out_of_time():
            break
        cells = dict(DATA['S'])
        cells['D9'] = '=' + bad
        cells.pop('D8', None), cells.pop('D10', None)
        if bad in ('1+2', '1+2+10'):
            for i, u in enumerate(users):
                cells[f'F{i + 1}'] = u
            path = wbk.write_xlsx({'sheets': [{'title': 'S', 'cells': cells}]})
            try:
                for ent in [None] + [('S', 'F', str(i + 1)) for i in range(len(users))]:
                    u = None if ent is None else users[int(ent[2]) - 1]
                    def go():
                        src = wbk.translate_path(path, entry=ent)
                        ex = wbk.Tr(src, wbk.load_source(src)).executor()
                        return [ex.get_cell(wbk.Cell('S', 'F', str(i + 1))).value for i, x in enumerate(users) if (u is None or x == u) and x in good_last]
                    o = wbk.outcome(go)
                    want = [good_last[x] for x in users if (u is None or x == u) and x in good_last]
                    case = {'ref_to_bad': bad, 'user': u}
                    if rec is not None:
                        rec.case(case, ent is not None, ['kind:ref-to-good', 'verdict:valid'], sample={'D9': '=' + bad, 'entry formula': u})
                    if bad == '1+2+10' and o[0] != 'timeout' and not (o[0] == 'value' and [(type(x).__name__, x) for x in o[1]] == [(type(x).__name__, x) for x in want]):
                        fails.append({'case': case, 'expected': want, 'actual': wbk.show_outcome(o), 'relation': 'the-whole-text-of-a-referenced-cell-is-consumed',
                                      'bucket': 'ref-to-good:' + ('whole' if ent is None else u.split('(')[0].lstrip('=')[:10]), 'extra': None})
                        break
            finally:
                try:
                    import os
                    os.unlink(path)
                except OSError:
                    pass
            continue
        if verdict('=' + bad)[0] != 'invalid':
            continue
        for i, u in enumerate(users):
            cells[f'F{i + 1}'] = u
        path = wbk.write_xlsx({'sheets': [{'title': 'S', 'cells': cells}]})
        try:
            for ent in [None] + [('S', 'F', str(i + 1)) for i in range(len(users))]:
                o = wbk.outcome(lambda: wbk.translate_path(path, entry=ent))
                case = {'ref_to_bad': bad, 'user': None if ent is None else users[int(ent[2]) - 1]}
                if rec is not None:
                    rec.case(case, ent is not None, ['kind:ref-to-bad', 'verdict:invalid', 'invalid:' + ('accepted' if o[0] == 'value' else 'rejected')],
                             sample={'bad cell': '=' + bad, 'entry formula': case['user']})
                if o[0] == 'timeout':
                    continue
                if not (o[0] == 'lib' and o[1] == 'E2PyclParserException'):
                    fails.append({'case': case, 'expected': 'E2PyclParserException', 'actual': 'accepted' if o[0] == 'value' else wbk.show_outcome(o),
                                  'relation': 'outside-the-grammar-is-rejected', 'bucket': 'ref-to-bad:' + ('accepted' if o[0] == 'value' else o[1]) + ':' + (
                                      'whole' if ent is None else users[int(ent[2]) - 1].split('(')[0].lstrip('=')[:10]), 'extra': None})
                    break
        finally:
            try:
                import os
                os.unlink(path)
            except OSError:
                pass
    return fails


# sheet prefixes: my lexer does not decide them, so the texts are listed by hand.  An area has one optional prefix, in front of its first
# corner (documented form [sheet!]A1:B2); a prefix is a title followed by one "!"; a title with a blank needs quotes
EXPLICIT = ([{'t': t, 'k': 'explicit', 'force': 'invalid'} for t in
             ['=SUM(S!B1:T2!B3)', '=SUM(S!B1:Nope!B3)', '=S!A1:S!A3', '=SUM(S!A1:S!A3)', '=SUM(A1:T2!A3)', "=SUM('My Sheet'!A1:'My Sheet'!B2)",
              '=VLOOKUP(2,S!B1:T2!C3,2,FALSE)', '=SUM(S!A:T2!A)', '=T2!S!A1', '=S!!A1', '=S!A1!B1', "='My Sheet'A1", '=My Sheet!A1', '=S!', '=!A1', "=''!A1",
              '=[1]S!A1', "='[1]S'!A1", '=S!A1:B', '=SUM(T2!A1:T2!B2)+1', '=@A1', '=@SUM(A1:A2)', '={SUM(A1:A2)}', '=S!$A$1:T2!$B$2']] +
            [{'t': t, 'k': 'explicit', 'force_value': v} for t, v in
             [('=T2!A1+1', 18), ("='My Sheet'!B2", 53), ('=SUM(T2!A1:B2)', 96), ("=SUM('My Sheet'!A:A)", 84), ('=S!A1', 2), ('=SUM(S!$A$1:$A$3)', 10),
              ("=T2!A1+'My Sheet'!A1", 58), ('=VLOOKUP(19,T2!A1:B3,2,FALSE)', 31), ("='T2'!B3", 37), ('="a@b"&"[1]"&"{x}"&"_xlfn."', 'a@b[1]{x}_xlfn.')]])

NSHARD = 16


def plan(tier):
    n = 160 if tier == 'quick' else 1500
    # the small deterministic lanes go first: they must not be the ones that a loaded machine's time budget cuts off
    specs = [{'kind': 'ref-to-bad', 'shard': 400}, {'kind': 'long', 'shard': 401}, {'kind': 'explicit', 'shard': 402}]
    specs += [{'kind': 'wrapped', 'shard': 300 + i, 'part': i, 'parts': 6} for i in range(6)]
    specs += [{'kind': 'families', 'shard': i, 'examples': n} for i in range(NSHARD)]
    specs += [{'kind': 'arity', 'shard': 100 + i, 'per_n': 10 if tier == 'quick' else 60} for i in range(8)]
    specs += [{'kind': 'soup', 'shard': 200 + i, 'rounds': 25 if tier == 'quick' else 400} for i in range(4)]
    return specs


def run_shard(spec, rec):
    if spec['kind'] == 'families':
        from hypothesis import strategies as st

        def body(ex):
            ast, rnd = ex
            for f in run_texts(family(ast, rnd), rec):
                rec.fail(**f)
        # the generator of the family is seeded by a drawn integer: every draw happens before the body (the budget guard may skip a body)
        hyp_run(st.tuples(seed_strategy(), st.integers(0, 2 ** 62).map(random.Random)), body, spec['examples'], (ID, spec['shard']), rec)
    elif spec['kind'] == 'wrapped':
        items = wrapped_items(spec['part'], spec['parts'])
        for i in range(0, len(items), 40):
            if rec.out_of_time():
                break
            for f in run_texts(items[i:i + 40], rec):
                rec.fail(**f)
    elif spec['kind'] == 'long':
        # very long but well-formed texts: translated whole or rejected with the parser exception, whatever the interpreter stack allows
        for n in (60, 200, 330, 400, 600, 1000):
            if rec.out_of_time():
                break
            items = [{'t': '=1' + '+1' * n, 'k': 'long'}, {'t': '=SUM(' + ','.join(['2'] * n) + ')', 'k': 'long'}, {'t': '=' + '-' * n + '1', 'k': 'long'},
                     {'t': '="a"' + '&"b"' * n, 'k': 'long'}, {'t': '=' + '(' * n + '1' + ')' * n, 'k': 'long'}, {'t': '=1' + '+1' * n + ')', 'k': 'long'},
                     {'t': '=IF(1,' * min(n, 300) + '1' + ',2)' * min(n, 300), 'k': 'long'},
                     {'t': '=1' + '<2' * n, 'k': 'long'}, {'t': '=A1' + '%' * n, 'k': 'long'}, {'t': '=1' + '=1' * n + '=', 'k': 'long'},
                     {'t': '=COUNTIFS(A1:A3,">' + '9' * n + '")', 'k': 'long'}, {'t': '=COUNTIFS(A1:A3,">1e' + str(n) + '")', 'k': 'long'}]
            for f in run_texts([it for it in items if len(it['t']) < 30000], rec):
                rec.fail(**f)
    elif spec['kind'] == 'explicit':
        for f in run_texts(EXPLICIT, rec):
            rec.fail(**f)
    elif spec['kind'] == 'ref-to-bad':
        for f in run_ref_to_bad(rec):
            rec.fail(**f)
    elif spec['kind'] == 'arity':
        rnd = random.Random(env.derive_seed(ID, 'arity', spec['shard']))
        fns = sorted(Recogniser.SHAPES)[spec['shard'] - 100::8]
        for fn in fns:
            if rec.out_of_time():
                break
            items = arity_items(fn, rnd, spec['per_n'])
            for i in range(0, len(items), 40):
                for f in run_texts(items[i:i + 40], rec):
                    rec.fail(**f)
    else:
        rnd = random.Random(env.derive_seed(ID, 'soup', spec['shard']))
        for _ in range(spec['rounds']):
            if rec.out_of_time():
                break
            for f in run_texts(soup_items(rnd), rec):
                rec.fail(**f)


MATCHERS = {}
