"""C02 - every reference form denotes exactly the intended cells of the intended sheet.

Hypothesis: 2-4 sheets (titles from identifier / unicode / cell-like / spaces / punctuation / leading digit / ! / apostrophe
classes, random order) whose cells hold their own coordinate code (1_000_003*sheet + 1_009*col + row) with blanks punched in,
optionally one far cell (column up to XFD, row up to 99 999).  References: $-marks on any endpoint component; no prefix /
unquoted / quoted title; single cell, column range, row range, rectangle, whole column(s).  Positions: bare formula,
SUM / COUNT / MAX, INDEX(area,r,c), VLOOKUP table, MATCH array, SUMIF / SUMIFS / COUNTIFS / AVERAGEIFS ranges, COLUMN.
Oracle: the generator's own coordinate map.  A missing title must be rejected at translation.
"""
import sys

from .. import env
from .. import wbk
from .. import fcase
from ..fcase import Q, ANY_ERR
from ..ref import formula as F
from ..run import hyp_run

ID = 'C02'
LEVEL = 'exploration'
BUDGET_S = {'quick': 300, 'thorough': 1500}
RULE = ('one workbook per case (2-4 coordinate-coded sheets) with ~25 reference formulas; non-trivial = the reference has a sheet '
        'prefix or a $ or a multi-letter column or a multi-digit row or is an area of >= 2 cells, and it addresses a sheet other '
        'than the first or an area containing a blank; far-cell cases use entry-point translation; '
        'distinct = distinct (workbook, formula)')
ASSUMPTIONS = ['reversed areas (C3:A1) and whole-row references are not generated',
               'a bare area formula is compared as the flattened row-major list (the nesting of the returned list is not asserted)',
               'whole-column references see the stored rows of the sheet (rows up to the last non-empty one)']

L = wbk.get_column_letter


def code(si, c, r):
    return 1_000_003 * (si + 1) + 1_009 * c + r


def title_class(t):
    import re
    if "'" in t:
        return 'apostrophe'
    if '!' in t:
        return 'bang'
    if re.fullmatch(r'[A-Z]{1,3}[0-9]{1,7}', t):
        return 'cell-like'
    if t[0].isdigit():
        return 'leading-digit'
    if re.fullmatch(r'\w+', t):
        return 'ident' if t.isascii() else 'unicode'
    if ' ' in t:
        return 'spaces'
    return 'punct'


def can_unquote(t):
    return title_class(t) in ('ident', 'unicode')


def prefix(t, quoted):
    if t is None:
        return ''
    if quoted:
        return "'" + t.replace("'", "''") + "'!"
    return t + '!'


def ref_text(r):
    """r: {'sheet': title|None, 'quoted': bool, 'kind': 'cell'|'area'|'cols', c0,r0,c1,r1, 'd': [4 bools]}"""
    d = r['d']
    p = prefix(r['sheet_title'], r['quoted']) if r.get('sheet_title') is not None else ''
    if r['kind'] == 'cell':
        return f"{p}{'$' if d[0] else ''}{L(r['c0'])}{'$' if d[1] else ''}{r['r0']}"
    if r['kind'] == 'cols':
        return f"{p}{'$' if d[0] else ''}{L(r['c0'])}:{'$' if d[2] else ''}{L(r['c1'])}"
    return (f"{p}{'$' if d[0] else ''}{L(r['c0'])}{'$' if d[1] else ''}{r['r0']}:"
            f"{'$' if d[2] else ''}{L(r['c1'])}{'$' if d[3] else ''}{r['r1']}")


def sheet_content(spec, si):
    """dict (c,r)->code for sheet index si (1-based coords), blanks omitted."""
    sh = spec['sheets'][si]
    out = {}
    if sh.get('empty'):
        return out
    for r in range(1, sh['nrows'] + 1):
        for c in range(1, sh['ncols'] + 1):
            if [c, r] not in sh['blanks']:
                out[(c, r)] = code(si, c, r)
    for c, r in sh.get('far', []):
        out[(c, r)] = code(si, c, r)
    return out


def val(content, c, r):
    v = content.get((c, r))
    return F.BLANK if v is None else v


def build(spec):
    sheets = []
    contents = []
    overrides = []
    for si, sh in enumerate(spec['sheets']):
        content = sheet_content(spec, si)
        sheets.append({'title': sh['title'], 'cells': {wbk.a1(c, r): v for (c, r), v in content.items()}})
        if spec.get('override_blanks') and not sh.get('empty'):
            # some blank cells of the used range get their value through the executor instead: a reference must see them
            content = dict(content)
            for (c, r) in [tuple(b) for b in sh['blanks']][:3]:
                if (c, r) not in content and c <= sh['ncols'] and r <= sh['nrows']:
                    content[(c, r)] = code(si, c, r)
                    overrides.append((sh['title'], wbk.get_column_letter(c), str(r), code(si, c, r)))
        contents.append(content)
    host = spec['host']
    qs = []
    far = any(sh.get('far') for sh in spec['sheets'])
    first_col = max(sh['ncols'] for sh in spec['sheets']) + 3
    homes = []
    expanded = []
    for q in spec['queries']:
        expanded.append((q, host))
        if q.get('also_on') is not None and q['ref']['sheet'] is None and q['also_on'] != host and q.get('missing') is None \
                and not spec['sheets'][q['also_on']].get('empty') and q['pos'] in ('bare', 'SUM', 'COUNT', 'MAX', 'INDEX', 'COLUMN', 'VLOOKUP'):
            # the same text again on another sheet: an unqualified reference means the sheet of the formula
            expanded.append((q, q['also_on']))
    prev_home = host
    for q, home in expanded:
        homes += [prev_home] * (len(qs) - len(homes))
        prev_home = home
        r = q['ref']
        si = r['sheet'] if r['sheet'] is not None else home
        r = dict(r)
        r['sheet_title'] = spec['sheets'][si]['title'] if q['ref']['sheet'] is not None else None
        if q.get('missing') is not None:
            r['sheet_title'] = q['missing']
        content = contents[si]
        txt = ref_text(r)
        stored_rows = max([rr for (_, rr) in content] + ([1] if si in (host, home) or any(h == si for _, h in expanded) else [0]))
        if r['kind'] == 'cell':
            coords = [[(r['c0'], r['r0'])]]
        elif r['kind'] == 'cols':
            coords = [[(c, rr) for c in range(r['c0'], r['c1'] + 1)] for rr in range(1, stored_rows + 1)]
        else:
            coords = [[(c, rr) for c in range(r['c0'], r['c1'] + 1)] for rr in range(r['r0'], r['r1'] + 1)]
        if not coords or not coords[0]:
            continue    # whole columns of a sheet without rows
        flat = [val(content, c, rr) for row in coords for (c, rr) in row]
        nums = [v for v in flat if v is not F.BLANK]
        tcls = title_class(spec['sheets'][si]['title'])
        ncells = len(flat)
        tags = [f'pos:{q["pos"]}', f'kind:{r["kind"]}', 'prefix:' + ('none' if r['sheet_title'] is None else 'quoted' if r['quoted'] else 'unquoted'),
                'dollar' if any(r['d']) else 'no-dollar', f'title:{tcls}' if r['sheet_title'] is not None else 'title:own',
                'cols:' + str(len(L(r['c1'] if r['kind'] != 'cell' else r['c0']))) + '-letter',
                'rows:' + ('>=1000' if r.get('r1', r.get('r0', 1)) and (r.get('r1') or r.get('r0') or 1) >= 1000 else '<1000')]
        nt = ((r['sheet_title'] is not None) or any(r['d']) or r['c0'] > 26 or (r.get('r0') or 1) > 9 or ncells >= 2) and \
             (si != 0 or any(v is F.BLANK for v in flat))
        fragile_title = tcls in ('bang', 'apostrophe') and r['sheet_title'] is not None
        meta = {'fragile_title': fragile_title, 'title_class': tcls, 'ref': txt}
        pos = q['pos']
        if q.get('missing') is not None:
            forms_ = [f'=SUM({txt})' if r['kind'] != 'cell' else f'={txt}', f'=IFERROR({txt},7)' if r['kind'] == 'cell' else f'=IFERROR(SUM({txt}),7)',
                      f'=IF(1,2,COUNT({txt}))', f'=IFERROR(INDEX({txt},1,1)+1,0)' if r['kind'] != 'cell' else f'=IFERROR(7,{txt})']
            qs.append(Q(forms_[q.get('pick', 0) % len(forms_)], ANY_ERR, 'missing-title', True, tags + ['missing-title'], meta={**meta, 'missing': True}))
            continue
        if pos == 'bare':
            if r['kind'] == 'cell':
                exp = flat[0]
            else:
                exp = [[val(content, c, rr) for (c, rr) in row] for row in coords]
                meta = {**meta, 'flatten': True}
            qs.append(Q(f'={txt}', exp, f'bare:{r["kind"]}', nt, tags, meta=meta))
        elif pos == 'TWO':
            # a second reference (single cell, quoted where possible) in front of / behind this one
            o = q['other']
            osi = o['sheet'] if o['sheet'] is not None else home
            ot = dict(o)
            ot['sheet_title'] = spec['sheets'][osi]['title'] if o['sheet'] is not None else None
            ov = val(contents[osi], o['c0'], o['r0'])
            ovn = 0 if ov is F.BLANK else ov
            otxt = ref_text(ot)
            form = q['pick'] % 3
            if r['kind'] == 'cell':
                v0 = 0 if flat[0] is F.BLANK else flat[0]
                qs.append(Q(f'={otxt}+{txt}' if form else f'={txt}+{otxt}', ovn + v0, 'TWO:cell', nt, tags, meta=meta))
            else:
                f = [f'=SUM({otxt},{txt})', f'={otxt}+SUM({txt})', f'=SUM({txt},{otxt})'][form]
                qs.append(Q(f, ovn + sum(nums), 'TWO:' + r['kind'], nt, tags + [f'two:{form}'], meta=meta))
        elif pos in ('SUM', 'COUNT', 'MAX'):
            if pos == 'MAX' and not nums:
                continue
            exp = {'SUM': sum(nums), 'COUNT': len(nums), 'MAX': max(nums) if nums else 0}[pos]
            qs.append(Q(f'={pos}({txt})', exp, f'{pos}:{r["kind"]}', nt, tags, meta=meta))
        elif pos == 'INDEX':
            if r['kind'] == 'cell':
                continue
            for (ri, ci) in q['index_at']:
                ri2, ci2 = 1 + ri % len(coords), 1 + ci % len(coords[0])
                c, rr = coords[ri2 - 1][ci2 - 1]
                qs.append(Q(f'=INDEX({txt},{ri2},{ci2})', val(content, c, rr), f'INDEX:{r["kind"]}', nt, tags, meta=meta))
        elif pos == 'VLOOKUP':
            if r['kind'] == 'cell' or len(coords[0]) < 1:
                continue
            rows_with_key = [i for i, row in enumerate(coords) if val(content, *row[0]) is not F.BLANK]
            if not rows_with_key:
                continue
            i = rows_with_key[q['pick'] % len(rows_with_key)]
            key = val(content, *coords[i][0])
            col = 1 + q['pick2'] % len(coords[0])
            qs.append(Q(f'=VLOOKUP({key},{txt},{col},FALSE)', val(content, *coords[i][col - 1]), f'VLOOKUP:{r["kind"]}', nt, tags, meta=meta))
        elif pos == 'MATCH':
            if r['kind'] not in ('area', 'cols') or r['c0'] != r['c1']:
                continue
            present = [i for i, row in enumerate(coords) if val(content, *row[0]) is not F.BLANK]
            if not present:
                continue
            i = present[q['pick'] % len(present)]
            qs.append(Q(f'=MATCH({val(content, *coords[i][0])},{txt},0)', i + 1, 'MATCH', nt, tags, meta=meta))
        elif pos in ('SUMIF', 'SUMIFS', 'COUNTIFS', 'AVERAGEIFS'):
            if r['kind'] not in ('area', 'cols') or (r['kind'] == 'cols' and r['c0'] != r['c1']):
                continue
            # criteria range = the reference; target = same shape shifted by q['shift'] columns, on the same sheet or (every third
            # case) at the same place of another sheet
            sh = q.get('shift', 0)
            tgt = dict(r)
            tgt['c0'], tgt['c1'] = r['c0'] + sh, r['c1'] + sh
            tcontent = content
            others_ = [k for k in range(len(spec['sheets'])) if k != si and not spec['sheets'][k].get('empty')]
            if q['pick2'] % 3 == 0 and others_ and not far:
                tsi_ = others_[q['pick'] % len(others_)]
                tgt['sheet_title'] = spec['sheets'][tsi_]['title']
                tgt['quoted'] = not can_unquote(tgt['sheet_title']) or bool(q['pick'] % 2)
                tcontent = contents[tsi_]
                if r['kind'] == 'cols' and max([rr for (_, rr) in tcontent] + [0]) != stored_rows:
                    continue    # whole columns of sheets with different numbers of rows: ranges of different sizes
                if tgt['sheet_title'] == spec['sheets'][home]['title']:
                    continue    # the target would lie on the sheet of the formula block
                tags = tags + ['target-on-another-sheet']
            ttxt = ref_text(tgt)
            tflat = [val(tcontent, c + sh, rr) for row in coords for (c, rr) in row]
            picked = [t for v, t in zip(flat, tflat) if v is not F.BLANK]
            pnums = [t for t in picked if t is not F.BLANK]
            if pos == 'SUMIF':
                qs.append(Q(f'=SUMIF({txt},">0",{ttxt})', sum(pnums), 'SUMIF', nt, tags, meta=meta))
            elif pos == 'SUMIFS':
                qs.append(Q(f'=SUMIFS({ttxt},{txt},">0")', sum(pnums), 'SUMIFS', nt, tags, meta=meta))
            elif pos == 'COUNTIFS':
                qs.append(Q(f'=COUNTIFS({txt},">0")', len(nums), 'COUNTIFS', nt, tags, meta=meta))
            else:
                if not pnums or len(pnums) != len(picked):
                    continue
                qs.append(Q(f'=AVERAGEIFS({ttxt},{txt},">0")', sum(pnums) / len(pnums), 'AVERAGEIFS', nt, tags, meta=meta))
        elif pos == 'COLUMN':
            if r['kind'] == 'cell' or (r['kind'] == 'area' and r['c0'] == r['c1']):
                qs.append(Q(f'=COLUMN({txt})', r['c0'], 'COLUMN', nt, tags, meta=meta))
    homes += [prev_home] * (len(qs) - len(homes))
    for q_, h in zip(qs, homes):
        if h != host:
            q_.tags.append('formula-on-second-sheet')
    return {'sheets': sheets, 'queries': qs, 'sheet': spec['sheets'][host]['title'], 'first_col': first_col, 'ncols': 400,
            'mode': 'entry' if far else 'whole', 'on': [spec['sheets'][h]['title'] for h in homes], 'overrides': overrides or None}


def run_spec(spec, rec=None):
    b = build(spec)
    qs = b['queries']
    if not qs:
        return []
    outs = wbk.eval_formulas(b['sheets'], [q.formula for q in qs], sheet=b['sheet'], first_col=b['first_col'], ncols=b['ncols'],
                             mode=b['mode'], on=b['on'], overrides=b.get('overrides'))
    fails = []
    for i, (q, o) in enumerate(zip(qs, outs)):
        if rec:
            rec.case({'spec': spec, 'q': i}, q.nontrivial, q.tags + ['mode:' + b['mode']],
                     sample={'formula': q.formula, 'expected': fcase.show_expected(q.expected), 'sheet_titles': [s['title'] for s in b['sheets']],
                             'host': b['sheet']})
        exp_, o_ = q.expected, o
        if q.meta.get('flatten') and o[0] == 'value' and isinstance(o[1], list):
            def flat_(x):
                return [z for y in x for z in (flat_(y) if isinstance(y, list) else [y])]
            exp_, o_ = flat_(q.expected), ('value', flat_(o[1]))
        ok, why = fcase.agrees(exp_, o_)
        if not ok and False and q.meta.get('fragile_title') and o[0] in ('lib', 'foreign') and not q.meta.get('missing'):
            # a title with ! or ' that the grammar does not accept: rejection is allowed, a wrong value is not
            if rec:
                rec.count('fragile_title_rejected')
            continue
        if not ok:
            bucket = q.label + (':title-' + q.meta['title_class'] if q.meta.get('title_class') not in ('ident', None) and 'prefix:none' not in q.tags else '')
            bucket = bucket if o[0] == 'value' else f'{bucket}:raises:{o[1]}'
            fails.append({'case': spec, 'expected': fcase.show_expected(q.expected), 'actual': wbk.show_outcome(o),
                          'relation': 'coordinate-map', 'bucket': bucket,
                          'extra': {'formula': q.formula, 'why': why, 'label': q.label, 'meta': q.meta, 'query_index': i}})
    return fails


# ------------------------------------------------------------------ enumerated lanes: exact numbers, many sheets

LONG_FLOATS = [0.6666666666666666, 0.3333333333333333, 1234567.890123457, -1.234567890123456e-300, 1.234567890123456e+300, 0.1428571428571428,
               98765.43210987654, -0.006172839506172839, 2.718281828459045, 3.141592653589793, 1e-300, 123456789012345.6]


def exact_cases():
    """a reference yields the number the cell holds - the very double, not a neighbour that prints alike"""
    for via in ('cell', 'override'):
        for form in ('bare', 'abs', 'prefixed', 'other-sheet', 'max-area', 'index', 'sum-one'):
            yield {'kind': 'exact', 'via': via, 'form': form}


def run_exact(case):
    vals = [v for v in LONG_FLOATS if float('%.16g' % v) == v]      # what the file format keeps
    n = len(vals)
    via, form = case['via'], case['form']
    data = {f'A{i + 1}': (v if via == 'cell' else i + 1) for i, v in enumerate(vals)}
    ov = [('D', 'A', str(i + 1), v) for i, v in enumerate(vals)] if via == 'override' else None
    fs = []
    for i in range(n):
        r = i + 1
        fs.append({'bare': f'=A{r}', 'abs': f'=$A${r}', 'prefixed': f'=D!A{r}', 'other-sheet': f'=D!$A{r}', 'max-area': f'=MAX(A{r}:A{r})',
                   'index': f'=INDEX(A1:A{n},{r})', 'sum-one': f'=SUM(A{r})'}[form])
    on = ['H' if form == 'other-sheet' else 'D'] * n
    outs = wbk.eval_formulas([{'title': 'D', 'cells': data}, {'title': 'H', 'cells': {'A1': 1}}], fs, sheet='D', first_col=5, ncols=20, on=on, overrides=ov)
    fails = []
    for f, v, o in zip(fs, vals, outs):
        if o[0] == 'timeout':
            continue
        if not (o[0] == 'value' and type(o[1]) is float and o[1] == v):
            fails.append({'case': case, 'expected': repr(v), 'actual': wbk.show_outcome(o) if o[0] != 'value' else ['value', repr(o[1])], 'relation': 'coordinate-map-exact-number',
                          'bucket': f'exact:{form}:{via}', 'extra': {'formula': f}})
            break
    return fails, n


def many_cases():
    for nsheets in (12, 13, 23):
        for flavour in ('cells', 'areas', 'overrides'):
            yield {'kind': 'many', 'nsheets': nsheets, 'flavour': flavour}


def run_many(case):
    """more than ten sheets, more than ten columns: every (sheet, column, row) is its own cell"""
    ns, flavour = case['nsheets'], case['flavour']
    ncols_, nrows_ = 13, 2
    sheets = [{'title': f'S{si + 1}', 'cells': {f'{L(c)}{r}': code(si, c, r) for c in range(1, ncols_ + 1) for r in range(1, nrows_ + 1)}} for si in range(ns)]
    fs, exps = [], []
    ov = None
    content = {(si, c, r): code(si, c, r) for si in range(ns) for c in range(1, ncols_ + 1) for r in range(1, nrows_ + 1)}
    if flavour == 'overrides':
        ov = []
        for si in range(ns):
            for c in (1, 2, 11, 12):
                if (si + c) % 2 == 0:
                    content[(si, c, 2)] = -code(si, c, 2)
                    ov.append((f'S{si + 1}', L(c), '2', -code(si, c, 2)))
    for si in range(ns):
        for c in range(1, ncols_ + 1):
            if flavour == 'areas':
                fs.append(f'=SUM(S{si + 1}!{L(c)}1:{L(c)}2)')
                exps.append(content[(si, c, 1)] + content[(si, c, 2)])
            else:
                r = 2 if flavour == 'overrides' else 1 + (si + c) % 2
                fs.append(f'=S{si + 1}!{L(c)}{r}')
                exps.append(content[(si, c, r)])
    outs = wbk.eval_formulas(sheets + [{'title': 'Host', 'cells': {'A1': 1}}], fs, sheet='Host', first_col=3, ncols=40, overrides=ov)
    fails = []
    for f, e, o in zip(fs, exps, outs):
        if o[0] == 'timeout':
            continue
        if not (o[0] == 'value' and type(o[1]) is int and o[1] == e):
            fails.append({'case': case, 'expected': e, 'actual': wbk.show_outcome(o), 'relation': 'coordinate-map', 'bucket': f'many-sheets:{flavour}',
                          'extra': {'formula': f}})
            break
    return fails, len(fs)


def run_case(spec):
    if spec.get('kind') == 'exact':
        return run_exact(spec)[0]
    if spec.get('kind') == 'many':
        return run_many(spec)[0]
    return run_spec(spec)


# ------------------------------------------------------------------ generator

TITLES = {
    'ident': ['Data', 'Sheet2', 'x_1', 'Лист1'.encode().decode(), 'Summary', 'T', 'ORDERS', 'SUMMARY', 'INDEX_2024', 'IF', 'DATE', 'MAXIMUM', 'TRUE', 'VALUE2', 'DAYS'],
    'unicode': ['Данные', 'Übersicht', '数据'],
    'cell-like': ['A1', 'XFD5', 'AB12'],
    'spaces': ['My Sheet', 'Q1 2024 plan', ' lead'],
    'punct': ['a-b', 'a.b', 'a(b)', 'a,b', 'q&a', 'x+y', 'p;q', '{z}', 'a=b', 'm%', '#tag', 'a"b'],
    'leading-digit': ['2024', '1st', '0', '1', '2', '3', '1', '2'],
    'bang': ['a!b'],
    'apostrophe': ["it's"],
}


def strategy():
    from hypothesis import strategies as st
    title = st.one_of(st.sampled_from(TITLES['ident']), st.sampled_from(TITLES['ident']), st.sampled_from(TITLES['unicode']),
                      st.sampled_from(TITLES['cell-like']), st.sampled_from(TITLES['spaces']), st.sampled_from(TITLES['punct']),
                      st.sampled_from(TITLES['leading-digit']), st.sampled_from(TITLES['bang'] + TITLES['apostrophe']))
    POS = ['bare', 'bare', 'TWO', 'TWO', 'SUM', 'SUM', 'COUNT', 'MAX', 'INDEX', 'VLOOKUP', 'MATCH', 'SUMIF', 'SUMIFS', 'COUNTIFS', 'AVERAGEIFS', 'COLUMN']

    @st.composite
    def spec(draw):
        n = draw(st.integers(2, 4))
        titles = draw(st.lists(title, min_size=n, max_size=n, unique_by=lambda t: t.lower()))
        far_mode = draw(st.integers(0, 5)) == 0
        sheets = []
        for t in titles:
            nrows = draw(st.sampled_from([3, 5, 8, 12, 30]))
            ncols = draw(st.integers(2, 8))
            nblank = draw(st.integers(0, max(1, nrows * ncols // 5)))
            blanks = [[draw(st.integers(1, ncols)), draw(st.integers(1, nrows))] for _ in range(nblank)]
            sheets.append({'title': t, 'nrows': nrows, 'ncols': ncols, 'blanks': blanks})
        host = draw(st.integers(0, n - 1))
        if n >= 3 and draw(st.integers(0, 2)) == 0:
            e = draw(st.integers(0, n - 1).filter(lambda i: i != host))
            sheets[e]['empty'] = True        # a sheet without any cell shifts nothing: later sheets keep their own cells
        if far_mode:
            fs = draw(st.integers(0, n - 1).filter(lambda i: not sheets[i].get('empty')))
            keyword_cols = [wbk.column_index_from_string(x) for x in ('OR', 'IF', 'AND', 'DAY', 'MAX', 'MIN', 'MID', 'SUM', 'IFS', 'ORD', 'IFA')]
            fc = draw(st.sampled_from([27, 52, 53, 702, 703, 1000, 16383, 16384, draw(st.integers(30, 16384))] + keyword_cols))
            fr = draw(st.sampled_from([100, 1000, 9999, 10000, 99999, draw(st.integers(31, 99999))]))
            sheets[fs]['far'] = [[fc, fr], [fc - 1, fr], [fc, fr - 1]]
        queries = []
        for _ in range(draw(st.integers(8, 22))):
            si = draw(st.one_of(st.none(), st.integers(0, n - 1)))
            tsi = host if si is None else si
            sh = sheets[tsi]
            t = sh['title']
            quoted = True if (si is not None and not can_unquote(t)) else draw(st.booleans())
            d = [draw(st.booleans()) and draw(st.booleans()) for _ in range(4)]
            if far_mode and sh.get('far') and draw(st.booleans()):
                fc, fr = sh['far'][0]
                kind = draw(st.sampled_from(['cell', 'area']))
                ref = {'sheet': si, 'quoted': quoted, 'kind': kind, 'c0': fc - (1 if kind == 'area' else 0), 'r0': fr - (1 if kind == 'area' else 0),
                       'c1': fc, 'r1': fr, 'd': d}
                pos = draw(st.sampled_from(['bare', 'SUM', 'COUNT', 'INDEX', 'COLUMN']))
            else:
                kind = draw(st.sampled_from(['cell', 'area', 'area', 'area', 'cols'] if not far_mode else ['cell', 'area', 'area']))
                c0 = draw(st.integers(1, sh['ncols']))
                r0 = draw(st.integers(1, sh['nrows']))
                if kind == 'cell':
                    ref = {'sheet': si, 'quoted': quoted, 'kind': 'cell', 'c0': c0, 'r0': r0, 'c1': c0, 'r1': r0, 'd': d}
                elif kind == 'cols':
                    c1 = draw(st.integers(c0, min(sh['ncols'], c0 + 2)))
                    ref = {'sheet': si, 'quoted': quoted, 'kind': 'cols', 'c0': c0, 'r0': None, 'c1': c1, 'r1': None, 'd': d}
                else:
                    shape = draw(st.sampled_from(['col', 'row', 'rect', 'rect']))
                    c1 = c0 if shape == 'col' else draw(st.integers(c0, min(sh['ncols'], c0 + 4)))
                    r1 = r0 if shape == 'row' else draw(st.integers(r0, min(sh['nrows'], r0 + 6)))
                    # areas may stick out of the used range by a row/column: those cells read as blank
                    if draw(st.integers(0, 5)) == 0 and shape != 'row':
                        r1 = sh['nrows'] + 2
                    ref = {'sheet': si, 'quoted': quoted, 'kind': 'area', 'c0': c0, 'r0': r0, 'c1': c1, 'r1': r1, 'd': d}
                pos = draw(st.sampled_from(POS))
            osi_ = draw(st.one_of(st.none(), st.integers(0, n - 1)))
            osh = sheets[host if osi_ is None else osi_]
            other = {'sheet': osi_, 'quoted': True if (osi_ is not None and not can_unquote(osh['title'])) else draw(st.booleans()),
                     'kind': 'cell', 'c0': draw(st.integers(1, osh['ncols'])), 'r0': draw(st.integers(1, osh['nrows'])), 'c1': 1, 'r1': 1,
                     'd': [draw(st.booleans()) and draw(st.booleans()) for _ in range(4)]}
            q = {'ref': ref, 'pos': pos, 'other': other, 'pick': draw(st.integers(0, 50)), 'pick2': draw(st.integers(0, 50)),
                 'index_at': [[draw(st.integers(0, 40)), draw(st.integers(0, 40))] for _ in range(3)],
                 'shift': draw(st.sampled_from([0, 1, 1, -1]))}
            if q['shift'] and (ref['c0'] + q['shift'] < 1):
                q['shift'] = 0
            if si is None and not far_mode and draw(st.integers(0, 2)) == 0:
                q['also_on'] = draw(st.integers(0, n - 1))
            queries.append(q)
            if ref['kind'] == 'area' and pos in ('SUM', 'COUNT') and not far_mode and draw(st.integers(0, 3)) == 0:
                # the same area text once per sheet (unqualified on the host, qualified elsewhere)
                for osi2 in range(n):
                    t2 = sheets[osi2]['title']
                    queries.append({**q, 'also_on': None, 'ref': {**ref, 'sheet': None if osi2 == host else osi2,
                                                                 'quoted': True if not can_unquote(t2) else draw(st.booleans())}})
        if draw(st.integers(0, 3)) == 0:
            for _ in range(2):
                queries.append({'ref': {'sheet': 0, 'quoted': draw(st.booleans()), 'kind': draw(st.sampled_from(['cell', 'area'])), 'c0': 1, 'r0': 1,
                                        'c1': 2, 'r1': 2, 'd': [False] * 4}, 'pos': 'bare',
                                'missing': draw(st.sampled_from(['Nope', 'Sheet99', 'data', 'DATA ', 'T2', '[1]' + titles[0], '[0]' + titles[-1], '[12]' + titles[0], titles[0] + ' ', '_' + titles[0], ''])),
                                'pick': draw(st.integers(0, 3)), 'pick2': 0, 'index_at': [], 'shift': 0})
        return {'sheets': sheets, 'host': host, 'queries': queries, 'override_blanks': (not far_mode) and draw(st.integers(0, 3)) == 0}
    return spec().filter(lambda s: all(q.get('missing') is None or q['missing'].lower() not in {sh['title'].lower() for sh in s['sheets']} for q in s['queries']))


NSHARD = 16


def plan(tier):
    n = 130 if tier == 'quick' else 2500
    return [{'kind': 'exact', 'shard': 50}, {'kind': 'many', 'shard': 51}, {'kind': 'many', 'shard': 52}, {'kind': 'many', 'shard': 53}] + \
        [{'kind': 'hyp', 'shard': i, 'examples': n} for i in range(NSHARD)]


def run_shard(spec, rec):
    if spec['kind'] in ('exact', 'many'):
        cases = list(exact_cases()) if spec['kind'] == 'exact' else [c for i, c in enumerate(many_cases()) if i % 3 == spec['shard'] - 51]
        for case in cases:
            fails, n = (run_exact if spec['kind'] == 'exact' else run_many)(case)
            tags = ['lane:' + spec['kind']] + ([f'exact:{case["form"]}', 'via:' + case['via']] if spec['kind'] == 'exact' else [f'sheets:{case["nsheets"]}', 'many:' + case['flavour']])
            rec.case(case, True, tags, sample={**case, 'references': n})
            for f in fails:
                rec.fail(**f)
        return

    def body(s):
        for f in run_spec(s, rec):
            rec.fail(**f)
    hyp_run(strategy(), body, spec['examples'], ('c02', spec['shard']), rec)


def shrink_candidates(spec):
    if spec.get('kind') in ('exact', 'many'):
        return
    qs = spec['queries']
    if len(qs) > 1:
        for q in qs:
            yield {**spec, 'queries': [q]}
        return
    for i, sh in enumerate(spec['sheets']):
        if sh['blanks']:
            s2 = [dict(x) for x in spec['sheets']]
            s2[i]['blanks'] = []
            yield {**spec, 'sheets': s2}
        if sh.get('far') and not (qs and (qs[0]['ref']['sheet'] == i or (qs[0]['ref']['sheet'] is None and spec['host'] == i))):
            s2 = [dict(x) for x in spec['sheets']]
            s2[i].pop('far')
            yield {**spec, 'sheets': s2}
    q = qs[0]
    if any(q['ref']['d']):
        yield {**spec, 'queries': [{**q, 'ref': {**q['ref'], 'd': [False] * 4}}]}


MATCHERS = {}
