"""C04 - overrides mean edit-the-cell-and-recalculate; the last write wins.

Hypothesis RuleBasedStateMachine over a generated workbook (constants, formulas over them incl. an erroring =1/0 cell and its
dependants, blanks, 1-2 sheets).  Rules: set_cells(batch of 1-4 cells; the same cell possibly twice in one batch or again later with
another value; formula cells, constants, blanks, cells beyond the used range, other sheets; A1-style / numeric / mixed addressing;
int / float / text / bool / date-time values) and query.  Model: dict cell -> last value.
Oracle: Executor.get_cell == value from a fresh translation of the edited workbook (model applied, written to a new xlsx).
A sample of histories is replayed in child processes under other PYTHONHASHSEED values.
"""
import json
import os
import subprocess
import sys

from .. import env
from .. import wbk

ID = 'C04'
LEVEL = 'exploration'
BUDGET_S = {'quick': 300, 'thorough': 1800}
RULE = ('stateful: a history = generated workbook + sequence of set_cells batches and queries (<= 12 steps); at every query every cell '
        'of the used range and every overridden cell is compared with a fresh translation of the edited workbook; a case = one history '
        'prefix ending in a query; non-trivial = the history wrote some cell at least twice with different values, or overrode a formula '
        'cell, or a cell beyond the used range, before a query; distinct = distinct history JSON; histories with repeated writes are '
        'also replayed under PYTHONHASHSEED 1,2,3 (thorough: 1..12)')
ASSUMPTIONS = ['override values never start with "=", are never None or the empty text; float overrides are finite and not integral (a workbook stores 2.0 as 2)',
               'whole-column references only under observers that ignore trailing blank rows (SUM, COUNT, MAX, SUMIF(S), COUNTIFS)',
               'values are compared with ==, exceptions by type']

L = wbk.get_column_letter
REGION_C, REGION_R = 6, 6


def formulas_pool():
    """{p} is replaced by the address of an earlier formula cell (never the cell itself: no cycles)."""
    return ['=A1+B1', '=A1*2', '=SUM(A1:B2)', '=SUM(A1:C3)', '=IF(A1>3,B1,C1)', '=1/0', '=D1+1', '=IFERROR(D1,9)', '=A1&"x"',
            '=MAX(A1:A3)', '=B2-A2', '=COUNT(A1:C3)', '=A1=B1', '=T!A1+1', '=SUM(T!A1:B2)', '={p}*2', '={p}+E2', '=F6', '=SUM(D1:F3)',
            '=IF(C3,{p},E5)',
            # whole columns: a cell that is set below the last row of the workbook belongs to them (observers that do not depend on
            # the number of trailing blank rows)
            # cells that only pass another cell on, and cells that depend on them
            '=A1', '=$B$2', '=T!A1', '={p}', '={p}+0', '=SUM({p},A2)',
            '=YEAR(A1)+DAY(B1)', '=DATEDIF(A1,B1,"D")', '=EDATE(A2,1)',
            '=SUM(A:A)', '=SUM(A:C)', '=COUNT(B:B)+MAX(A:B)', '=SUMIF(A:A,">1",B:B)', '=SUM(T!A:B)', '=SUMIFS(C:C,A:A,">0")+COUNTIFS(B:B,">2")']


def enc_cell(k):
    return f'{k[0]}:{k[1]}:{k[2]}'


def model_workbook(wb, overrides):
    """wb: {'titles': [...], 'cells': {'si:c:r': value}} ; overrides: {'si:c:r': value} -> workbook model for wbk"""
    sheets = [{'title': t, 'cells': {}} for t in wb['titles']]
    merged = dict(wb['cells'])
    merged.update(overrides)
    for k, v in merged.items():
        si, c, r = (int(x) for x in k.split(':'))
        if v is not None:
            sheets[si]['cells'][wbk.a1(c, r)] = v
    return {'sheets': sheets}


def eq_outcome(a, b):
    if a[0] != b[0]:
        return False
    if a[0] == 'value':
        x, y = a[1], b[1]
        if wbk.is_blank(x) or wbk.is_blank(y):
            return wbk.is_blank(x) and wbk.is_blank(y)
        if isinstance(x, bool) != isinstance(y, bool):
            return False
        if isinstance(x, float) and isinstance(y, float) and x != x and y != y:
            return True
        return type(x) is type(y) and x == y or (isinstance(x, (int, float)) and isinstance(y, (int, float)) and x == y)
    if a[0] in ('foreign', 'lib'):
        return a[1] == b[1]
    return True


def make_cell(wb, k, addressing, value=None):
    si, c, r = (int(x) for x in k.split(':'))
    title = wb['titles'][si] if addressing in ('a1', 'mixed', 'title-num') else si
    if addressing == 'a1':
        return wbk.Cell(title, L(c), str(r), value)
    if addressing == 'title-num':
        return wbk.Cell(title if isinstance(title, str) else wb['titles'][si], c - 1, r - 1, value)
    if addressing == 'num':
        return wbk.Cell(title, c - 1, r - 1, value)
    return wbk.Cell(title, c - 1, str(r), value) if (c + r) % 2 else wbk.Cell(title, L(c), r - 1, value)


def query_keys(wb, overrides):
    keys = set(wb['cells']) | set(overrides)
    out = set(keys)
    # plus the blank cells of the region of each sheet
    for si in range(len(wb['titles'])):
        for c in range(1, REGION_C + 1):
            for r in range(1, REGION_R + 1):
                out.add(f'{si}:{c}:{r}')
    return sorted(out)


def replay(history, collect=None):
    """Run a history against the product; returns list of failure dicts.  history = {'wb':..., 'steps': [...]}"""
    wb = history['wb']
    base = wbk.translate_model(model_workbook(wb, {}))
    if base[0] != 'value':
        if base[0] == 'timeout':
            return []
        return [{'case': history, 'expected': 'base workbook translates', 'actual': wbk.show_outcome(base),
                 'relation': 'override-equals-edit', 'bucket': 'base-translation:' + base[1]}]
    tr = base[1]
    # a bystander: another executor on the same class object that is never given an override - it must keep reporting the
    # plain workbook whatever the first executor is told
    bystander = tr.executor()
    plain = {}
    for k in sorted(wb['cells']):
        si, c, r = (int(x) for x in k.split(':'))
        plain[k] = wbk.outcome(lambda: bystander.get_cell(wbk.Cell(si, c - 1, r - 1)).value)
    plain_sizes = json.loads(json.dumps(bystander.get_executed_class().get_sheets_size()))
    ex = tr.executor()
    overrides = {}
    fails = []
    for n, step in enumerate(history['steps']):
        if step['op'] == 'set':
            cells = []
            for (k, v, addressing) in step['batch']:
                if step.get('rmw'):
                    # read - modify - write with one and the same Cell object
                    cell_ = make_cell(wb, k, addressing)
                    wbk.outcome(lambda: ex.get_cell(cell_))
                    cell_.value = wbk.dec(v)
                    cells.append(cell_)
                else:
                    cells.append(make_cell(wb, k, addressing, wbk.dec(v)))
            if step.get('touch'):
                # callers may keep their cells in sets or log them before handing them over (Cell is hashable by design)
                for cell_ in cells:
                    try:
                        hash(cell_)
                        cell_.to_dict()
                    except wbk.E2PyclException:
                        pass
            o = wbk.outcome(lambda: ex.set_cells(cells))
            if o[0] not in ('value', 'timeout'):
                fails.append({'case': {**history, 'steps': history['steps'][:n + 1]}, 'expected': 'set_cells succeeds', 'actual': wbk.show_outcome(o),
                              'relation': 'override-equals-edit', 'bucket': 'set_cells:raises:' + o[1]})
                return fails
            for (k, v, _) in step['batch']:
                overrides[k] = v
        else:
            fresh = wbk.translate_model(model_workbook(wb, overrides))
            if fresh[0] != 'value':
                if fresh[0] == 'timeout':
                    continue
                raise env.HarnessError(f'C04: edited workbook does not translate: {fresh}')
            fex = fresh[1].executor()
            now_sizes = bystander.get_executed_class().get_sheets_size()
            if now_sizes != plain_sizes:
                fails.append({'case': {**history, 'steps': history['steps'][:n + 1]}, 'expected': plain_sizes, 'actual': json.loads(json.dumps(now_sizes)),
                              'relation': 'override-equals-edit', 'bucket': 'bystander-executor-sees-sizes', 'extra': {'step': n}})
                return fails
            for k, want_plain in plain.items():
                si, c, r = (int(x) for x in k.split(':'))
                got_plain = wbk.outcome(lambda: bystander.get_cell(wbk.Cell(si, c - 1, r - 1)).value)
                if 'timeout' not in (got_plain[0], want_plain[0]) and not eq_outcome(got_plain, want_plain):
                    fails.append({'case': {**history, 'steps': history['steps'][:n + 1]}, 'expected': wbk.show_outcome(want_plain), 'actual': wbk.show_outcome(got_plain),
                                  'relation': 'override-equals-edit', 'bucket': 'bystander-executor-sees-overrides',
                                  'extra': {'cell': f'{wb["titles"][si]}!{wbk.a1(c, r)}', 'step': n}})
                    return fails
            def check_cells():
                for k in query_keys(wb, overrides):
                    si, c, r = (int(x) for x in k.split(':'))
                    got = wbk.outcome(lambda: ex.get_cell(make_cell(wb, k, step.get('addressing', 'a1'))).value)
                    want = wbk.outcome(lambda: fex.get_cell(wbk.Cell(si, c - 1, r - 1)).value)
                    if collect is not None:
                        collect.append(1)
                    if got[0] == 'timeout' or want[0] == 'timeout':
                        continue
                    if not eq_outcome(got, want):
                        what = 'overridden-cell' if k in overrides else 'formula' if isinstance(wb['cells'].get(k), str) and str(wb['cells'].get(k)).startswith('=') else 'other-cell'
                        fails.append({'case': {**history, 'steps': history['steps'][:n + 1]}, 'expected': wbk.show_outcome(want), 'actual': wbk.show_outcome(got),
                                      'relation': 'override-equals-edit', 'bucket': f'{what}:' + (got[1] if got[0] != 'value' else 'value'),
                                      'extra': {'cell': f'{wb["titles"][si]}!{wbk.a1(c, r)}', 'step': n}})
                        return True
                return False

            def check_grids():
                # the whole-sheet grid: same shape and same values as the grid of the edited workbook
                for si in range(len(wb['titles'])):
                    arg = si if n % 2 else wb['titles'][si]
                    g1 = wbk.outcome(lambda: [[wbk.show(c.value) for c in row] for row in ex.get_sheet(arg)])
                    g2 = wbk.outcome(lambda: [[wbk.show(c.value) for c in row] for row in fex.get_sheet(si)])
                    if collect is not None:
                        collect.append(1)
                    if 'timeout' in (g1[0], g2[0]) or g1[0] != 'value' or g2[0] != 'value':
                        continue    # a raising cell inside the grid: judged cell by cell above
                    # the edited workbook stores nothing for an override beyond its used range that is blank-like; compare the common part
                    # exactly and demand that the executor's grid covers every overridden coordinate
                    need_r = max([int(k.split(':')[2]) for k in overrides if k.startswith(f'{si}:')] + [0])
                    need_c = max([int(k.split(':')[1]) for k in overrides if k.startswith(f'{si}:')] + [0])
                    rows1 = len(g1[1])
                    cols1 = len(g1[1][0]) if g1[1] else 0
                    if rows1 < need_r or (rows1 and cols1 < need_c) or any(len(r_) != cols1 for r_ in g1[1]):
                        fails.append({'case': {**history, 'steps': history['steps'][:n + 1]}, 'expected': f'a rectangular grid of at least {need_r} x {need_c}',
                                      'actual': f'{rows1} rows, row lengths {sorted({len(r_) for r_ in g1[1]})}', 'relation': 'override-equals-edit',
                                      'bucket': 'sheet-grid:shape', 'extra': {'sheet': si, 'step': n}})
                        return True
                    for ri, row in enumerate(g2[1]):
                        for ci, v in enumerate(row):
                            if ri < rows1 and ci < cols1 and g1[1][ri][ci] != v:
                                fails.append({'case': {**history, 'steps': history['steps'][:n + 1]}, 'expected': v, 'actual': g1[1][ri][ci],
                                              'relation': 'override-equals-edit', 'bucket': 'sheet-grid:value',
                                              'extra': {'sheet': si, 'cell': wbk.a1(ci + 1, ri + 1), 'step': n}})
                                return True
                return False

            # every second query asks for the whole sheets first: a grid read directly after set_cells (no single-cell query in between)
            # must show the overrides as well
            first, second = (check_grids, check_cells) if n % 2 else (check_cells, check_grids)
            if first() or second():
                return fails
    return fails


def features(history):
    wb = history['wb']
    writes = {}
    f = set()
    seen_set = False
    for step in history['steps']:
        if step['op'] == 'set':
            seen_set = True
            for (k, v, addressing) in step['batch']:
                writes.setdefault(k, []).append(json.dumps(v, sort_keys=True))
                base = wb['cells'].get(k)
                if isinstance(base, str) and base.startswith('='):
                    f.add('override-formula' + ('-erroring' if base == '=1/0' else ''))
                si, c, r = (int(x) for x in k.split(':'))
                maxc = max([int(x.split(':')[1]) for x in wb['cells'] if x.startswith(f'{si}:')] or [0])
                maxr = max([int(x.split(':')[2]) for x in wb['cells'] if x.startswith(f'{si}:')] or [0])
                if c > maxc or r > maxr:
                    f.add('override-beyond-used-range')
                if base is None:
                    f.add('override-blank')
                f.add('addressing:' + addressing)
                if si > 0:
                    f.add('other-sheet')
            if len({k for (k, _, _) in step['batch']}) < len(step['batch']):
                f.add('same-cell-twice-in-batch')
    if any(len(set(v)) >= 2 for v in writes.values()):
        f.add('rewritten-with-different-value')
    for k, vs in writes.items():
        seq = [json.dumps(wb['cells'].get(k))] + vs
        if any({a, b} in ({'1', 'true'}, {'0', 'false'}) for a, b in zip(seq, seq[1:])):
            f.add('rewritten-with-equal-value-of-other-type')
    if any(len(v) >= 3 for v in writes.values()):
        f.add('written-3+-times')
    return f


def is_nontrivial(history):
    f = features(history)
    return bool(f & {'rewritten-with-different-value', 'override-formula', 'override-formula-erroring', 'override-beyond-used-range'}) \
        and history['steps'] and history['steps'][-1]['op'] == 'query'


def run_case(history):
    if history.get('hashseed') is not None and os.environ.get('VF_C04_CHILD') != '1':
        return run_in_children([history], [history['hashseed']])
    return replay(history)


def run_in_children(histories, seeds):
    """Replay histories in child processes with other hash seeds; returns failures (tagged with the seed)."""
    fails = []
    payload = json.dumps(histories)
    for s in seeds:
        envv = dict(os.environ, PYTHONHASHSEED=str(s), VF_C04_CHILD='1')
        p = subprocess.run([sys.executable, '-B', '-m', 'vf.props.c04'], input=payload, capture_output=True, text=True,
                           cwd=env.VERIF, env=envv, timeout=600)
        if p.returncode != 0:
            raise env.HarnessError(f'C04 child (PYTHONHASHSEED={s}) failed: {p.stderr[-2000:]}')
        for f in json.loads(p.stdout):
            f['case'] = {**f['case'], 'hashseed': s}
            f['bucket'] = f['bucket'] + ':hashseed'
            fails.append(f)
    return fails


# ------------------------------------------------------------------ the state machine

def build_machine(rec, histories_out):
    from hypothesis import strategies as st
    from hypothesis.stateful import RuleBasedStateMachine, rule, initialize, precondition

    value = st.one_of(st.integers(-20, 99), st.integers(0, 9), st.sampled_from([2.5, 0.5, -1.25, 1250000.5]), st.booleans(),
                      st.sampled_from(['abc', 'x y', '12', 'TRUE', "it's"]), st.just({'$dt': '2024-02-29T00:00:00'}), st.sampled_from([{'$d': '2024-02-29'}, {'$d': '2021-12-31'}]))
    addressing = st.sampled_from(['a1', 'a1', 'num', 'mixed', 'title-num'])

    class M(RuleBasedStateMachine):
        def __init__(self):
            super().__init__()
            self.history = None

        @initialize(data=st.data())
        def init(self, data):
            two = data.draw(st.booleans())
            # digit-only titles that differ from the sheet's own number: a title is a name, never a number
            titles = data.draw(st.sampled_from([['S', 'T'], ['S', 'T'], ['1', '0'], ['2024', '1'], ['Data', '0']])) if two else data.draw(st.sampled_from([['S'], ['S'], ['1'], ['2024']]))
            cells = {}
            ncons = data.draw(st.integers(2, 8))
            for _ in range(ncons):
                c, r = data.draw(st.integers(1, 3)), data.draw(st.integers(1, 3))
                cells[f'0:{c}:{r}'] = data.draw(st.one_of(st.integers(1, 9), st.integers(0, 2)))
            if two:
                for _ in range(data.draw(st.integers(1, 4))):
                    cells[f'1:{data.draw(st.integers(1, 2))}:{data.draw(st.integers(1, 2))}'] = data.draw(st.integers(10, 19))
            pool = [f for f in formulas_pool() if two or 'T!' not in f]
            fs = data.draw(st.lists(st.sampled_from(pool), min_size=2, max_size=7, unique=True))
            # fixed homes: D1 holds =1/0 when chosen (its dependants refer to D1); the others go to column G, outside every
            # referenced area, and may refer to an earlier home - so the workbook has no cycles
            homes = [f'0:7:{i}' for i in range(1, 9)]
            hi = 0
            for f in fs:
                if f == '=1/0':
                    cells['0:4:1'] = f
                else:
                    prev = f'G{hi}' if hi else 'A1'
                    cells[homes[hi]] = f.replace('{p}', prev).replace('T!', "'" + titles[1] + "'!" if two and titles[1] != 'T' else 'T!')
                    hi += 1
            self.history = {'wb': {'titles': titles, 'cells': cells}, 'steps': []}

        def _target(self, data):
            wb = self.history['wb']
            kind = data.draw(st.sampled_from(['existing', 'existing', 'existing', 'region', 'beyond', 'rewrite', 'below']))
            prev = [k for s in self.history['steps'] if s['op'] == 'set' for (k, _, _) in s['batch']]
            if kind == 'rewrite' and prev:
                return data.draw(st.sampled_from(prev))
            if kind in ('existing', 'rewrite'):
                return data.draw(st.sampled_from(sorted(wb['cells'])))
            si = data.draw(st.integers(0, len(wb['titles']) - 1))
            if kind == 'below':
                return f'{si}:{data.draw(st.integers(1, 3))}:{data.draw(st.sampled_from([7, 9, 10, 15, 40]))}'
            if kind == 'region':
                return f'{si}:{data.draw(st.integers(1, REGION_C))}:{data.draw(st.integers(1, REGION_R))}'
            # beyond the used range, also in columns of two and three letters (AA, AB, BA, AAA)
            return f'{si}:{data.draw(st.sampled_from([7, 8, 12, 27, 28, 53, 703]))}:{data.draw(st.sampled_from([1, 2, 7, 9, 15]))}'

        @precondition(lambda self: self.history is not None)
        @rule(data=st.data())
        def set_cells(self, data):
            n = data.draw(st.integers(1, 4))
            batch = []
            for _ in range(n):
                if batch and data.draw(st.integers(0, 3)) == 0:
                    k = batch[-1][0]  # the same cell twice in one batch
                else:
                    k = self._target(data)
                v = data.draw(value)
                # a value that equals the one the cell holds now but has another type (1 <-> TRUE, 0 <-> FALSE): SUM / COUNT
                # over the cell must follow the type
                last = [vv for s_ in self.history['steps'] if s_['op'] == 'set' for (kk, vv, _) in s_['batch'] if kk == k] + \
                       [vv for (kk, vv, _) in batch if kk == k]
                now = last[-1] if last else self.history['wb']['cells'].get(k)
                if isinstance(now, (bool, int)) and now in (0, 1) and data.draw(st.integers(0, 1)) == 0:
                    v = int(now) if isinstance(now, bool) else bool(now)
                batch.append([k, v, data.draw(addressing)])
            self.history['steps'].append({'op': 'set', 'batch': batch, 'touch': data.draw(st.integers(0, 3)) == 0, 'rmw': data.draw(st.integers(0, 3)) == 0})

        @precondition(lambda self: self.history is not None and any(s['op'] == 'set' for s in self.history['steps'])
                      and self.history['steps'][-1]['op'] != 'query')
        @rule(a=addressing)
        def query(self, a):
            self.history['steps'].append({'op': 'query', 'addressing': a})
            h = json.loads(json.dumps(self.history))
            if rec.out_of_time():
                return
            n = []
            fails = replay(h, n)
            nt = is_nontrivial(h)
            rec.case(h, nt, sorted(features(h)) + [f'steps:{len(h["steps"])}'], n=max(1, len(n)),
                     sample={'workbook': h['wb'], 'steps': h['steps']})
            if nt and 'rewritten-with-different-value' in features(h) and len(histories_out) < 400:
                histories_out.append(h)
            for f in fails:
                rec.fail(**f)

        def teardown(self):
            pass
    return M


NSHARD = 16


def plan(tier):
    n = 70 if tier == 'quick' else 800
    specs = [{'kind': 'machine', 'shard': i, 'examples': n} for i in range(NSHARD)]
    return specs


def run_shard(spec, rec):
    import hypothesis
    from hypothesis import settings, HealthCheck, Phase
    from hypothesis.stateful import run_state_machine_as_test
    histories = []
    M = build_machine(rec, histories)
    M = hypothesis.seed(env.derive_seed('c04', spec['shard']))(M)
    run_state_machine_as_test(M, settings=settings(max_examples=spec['examples'], stateful_step_count=14, database=None, deadline=None,
                                                   phases=[Phase.generate], suppress_health_check=list(HealthCheck),
                                                   report_multiple_bugs=False))
    # replay a sample of the multi-write histories under other hash seeds (the set_cells bookkeeping once depended on them)
    if spec['shard'] < (4 if rec.tier == 'quick' else 16) and histories:
        sample = histories[:6 if rec.tier == 'quick' else 25]
        seeds = [1, 2, 3] if rec.tier == 'quick' else list(range(1, 13))
        for f in run_in_children(sample, seeds):
            rec.fail(**f)
        rec.count('histories_replayed_under_other_hash_seeds', len(sample) * len(seeds))
        for h in sample:
            rec.case({'h': h, 'hashseeds': seeds}, True, ['hash-seed-replay'], n=len(seeds))


def shrink_candidates(history):
    steps = history['steps']
    for i in range(len(steps) - 1):
        yield {**history, 'steps': steps[:i] + steps[i + 1:]}
    for i, s in enumerate(steps):
        if s['op'] == 'set' and len(s['batch']) > 1:
            for j in range(len(s['batch'])):
                yield {**history, 'steps': steps[:i] + [{**s, 'batch': s['batch'][:j] + s['batch'][j + 1:]}] + steps[i + 1:]}
    cells = history['wb']['cells']
    for k in list(cells):
        c2 = dict(cells)
        del c2[k]
        yield {**history, 'wb': {**history['wb'], 'cells': c2}}


MATCHERS = {}


if __name__ == '__main__':
    # child mode: histories on stdin -> failures on stdout
    hs = json.load(sys.stdin)
    out = []
    for h in hs:
        out.extend(replay(h))
    json.dump(out, sys.stdout, default=repr)
