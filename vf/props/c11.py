"""C11 - aggregates fold exactly the numeric cells of their arguments.

Hypothesis: a block of cells (<= 6x6 on sheet S, optional second sheet T) filled from {int, float, negative, text,
numeric text, TRUE/FALSE, blank, empty text (a ="" formula), date}; SUM/AVERAGE/MIN/MAX/COUNT/COUNTBLANK/AND/OR over
1-4 arguments (row / column / rectangle / whole-column / other-sheet areas, single cells, numeric literals), the same
cells re-split into different areas, and the aggregate embedded in a larger expression.
Oracle: an independent fold over the generator's content map.
"""
import datetime

from .. import env
from .. import wbk
from .. import fcase
from ..fcase import Q
from ..ref import formula as F

ID = 'C11'
LEVEL = 'exploration'
BUDGET_S = {'quick': 300, 'thorough': 1500}
RELATION = 'independent-fold'
RULE = ('one workbook per case: a generated cell block and up to 10 aggregate formulas over generated argument lists; '
        'non-trivial = the arguments contain >= 2 areas or an area of >= 2x2 cells, at least one ignored kind '
        '(text, numeric text, boolean, blank, empty text) and at least two numeric cells; distinct = distinct (block, formula)')
ASSUMPTIONS = ['dates are only placed under COUNT / COUNTBLANK', 'AND / OR only see booleans, numbers and comparisons',
               'AVERAGE / MIN / MAX over nothing numeric are not asserted; text and boolean literal arguments are not generated',
               'floats are multiples of 1/4 so that sums are exact in any order']

COLS = 'ABCDEFGHIJ'
NUMERIC_FNS = ('SUM', 'AVERAGE', 'MIN', 'MAX')


# ------------------------------------------------------------------ content kinds

def kind(v):
    if v is None:
        return 'blank'
    if isinstance(v, bool):
        return 'bool'
    if isinstance(v, (int, float)):
        return 'num'
    if isinstance(v, dict):
        return 'date'
    if v == '=""':
        return 'emptytext'
    try:
        float(v)
        return 'numtext'
    except ValueError:
        return 'text'


def area_cells(spec, arg):
    """Coordinates (sheet, col0, row0) of an argument, row-major, one entry per mention."""
    sheet = arg.get('sheet') or 'S'
    grid = grid_of(spec, sheet)
    nrows, ncols = len(grid), len(grid[0])
    if arg['t'] == 'cell':
        return [(sheet, arg['c'], arg['r'])]
    if arg['t'] == 'col':
        return [(sheet, c, r) for r in range(nrows) for c in range(arg['c'], arg['c2'] + 1)] if False else \
               [(sheet, c, r) for c in range(arg['c'], arg['c2'] + 1) for r in range(nrows)]
    return [(sheet, c, r) for r in range(arg['r0'], arg['r1'] + 1) for c in range(arg['c0'], arg['c1'] + 1)]


def grid_of(spec, sheet):
    return {'S': spec['grid'], 'T': spec.get('grid2'), 'U': spec.get('grid3')}[sheet]


def content(spec, coord):
    """what the cell holds now: the last override of the coordinate, else the workbook cell, else nothing (also beyond the used range)"""
    sheet, c, r = coord
    for o in reversed(spec.get('overrides') or []):
        if (o['sheet'], o['c'], o['r']) == (sheet, c, r):
            return o['v']
    grid = grid_of(spec, sheet)
    if r < len(grid) and c < len(grid[r]):
        return grid[r][c]
    return None


TITLE_SETS = [['S', 'T', 'U'], ['S', 'T', 'U'], ['Main', '2024', '1'], ['0', '10', '2'], ['Data', 'My Sheet', "it's"]]


def title_of(spec, key):
    return TITLE_SETS[spec.get('titles', 0) % len(TITLE_SETS)]['STU'.index(key)]


def prefix_of(spec, key):
    t = title_of(spec, key)
    return (t if t.isidentifier() else "'" + t.replace("'", "''") + "'") + '!'


def arg_text(arg, spec=None):
    p = (prefix_of(spec, arg['sheet']) if spec is not None else f"{arg['sheet']}!") if arg.get('sheet') else ''
    if arg['t'] == 'num':
        return str(arg['v'])
    if arg['t'] == 'word':
        return '"' + arg['v'] + '"'
    if arg['t'] == 'cmp':
        return f"{p}{COLS[arg['c']]}{arg['r'] + 1}{arg['op']}{arg['v']}"
    if arg['t'] == 'cell':
        return f"{p}{COLS[arg['c']]}{arg['r'] + 1}"
    if arg['t'] == 'col':
        return f"{p}{COLS[arg['c']]}:{COLS[arg['c2']]}"
    return f"{p}{COLS[arg['c0']]}{arg['r0'] + 1}:{COLS[arg['c1']]}{arg['r1'] + 1}"


class Skip(Exception):
    pass


def fold(spec, fn, args):
    """Reference value of fn(args) or raises Skip when the statement does not determine it."""
    vals = []   # (kind, value) per mention
    scalars = []
    for a in args:
        if a['t'] == 'num':
            scalars.append(a['v'])
        elif a['t'] == 'word':
            # a word among the arguments of COUNT is no number, whatever python's float() makes of it (nan, inf, 1_0)
            if fn != 'COUNT':
                raise Skip('text scalar outside COUNT')
        elif a['t'] == 'cmp':
            v = content(spec, (a.get('sheet') or 'S', a['c'], a['r']))
            if kind(v) not in ('num', 'blank'):
                raise Skip('comparison of non-number')
            x = 0 if v is None else v
            scalars.append({'<': x < a['v'], '>': x > a['v'], '=': x == a['v']}[a['op']])
        else:
            for co in area_cells(spec, a):
                v = content(spec, co)
                vals.append((kind(v), v))
    kinds = [k for k, _ in vals]
    nums = [v for k, v in vals if k == 'num'] + [s for s in scalars if not isinstance(s, bool)]
    if fn in NUMERIC_FNS:
        if 'date' in kinds:
            raise Skip('date under a numeric fold')
        if any(isinstance(s, bool) for s in scalars):
            raise Skip('boolean scalar')
        if fn == 'SUM':
            return sum(nums)
        if not nums:
            raise Skip('empty fold')
        return {'AVERAGE': sum(nums) / len(nums), 'MIN': min(nums), 'MAX': max(nums)}[fn]
    if fn == 'COUNT':
        return len(nums) + kinds.count('date')
    if fn == 'COUNTBLANK':
        if scalars:
            raise Skip('scalar under COUNTBLANK')
        if any(a['t'] == 'col' for a in args):
            # the number of blank cells of a whole column depends on where the sheet "ends"; the statement is silent
            raise Skip('COUNTBLANK over a whole column')
        return kinds.count('blank') + kinds.count('emptytext')
    if fn in ('AND', 'OR'):
        if any(k not in ('num', 'bool') for k in kinds):
            raise Skip('AND/OR over text/blank/date')
        truth = [bool(v) for _, v in vals] + [bool(s) for s in scalars]
        if not truth:
            raise Skip('empty')
        return all(truth) if fn == 'AND' else any(truth)
    raise Skip(fn)


def stats(spec, args):
    cells = [content(spec, co) for a in args if a['t'] not in ('num', 'cmp', 'word') for co in area_cells(spec, a)]
    ks = [kind(v) for v in cells]
    n_areas = sum(1 for a in args if a['t'] in ('area', 'col'))
    big = any(a['t'] == 'col' and len(spec['grid']) >= 2 and a['c2'] > a['c'] or
              a['t'] == 'area' and a['r1'] > a['r0'] and a['c1'] > a['c0'] for a in args)
    ignored = any(k in ('text', 'numtext', 'bool', 'blank', 'emptytext') for k in ks)
    return (n_areas >= 2 or big) and ignored and ks.count('num') >= 2, ks


def build(spec):
    sheets = [{'title': title_of(spec, 'S'), 'cells': {}}]
    grids = [('S', spec['grid'])]
    if spec.get('grid2'):
        sheets.append({'title': title_of(spec, 'T'), 'cells': {}})
        grids.append(('T', spec['grid2']))
    if spec.get('grid3'):
        # a sheet that holds data only (no formula is placed there): areas over it may reach beyond its used range
        sheets.append({'title': title_of(spec, 'U'), 'cells': {}})
        grids.append(('U', spec['grid3']))
    for (title, grid), sh in zip(grids, sheets):
        for r, row in enumerate(grid):
            for c, v in enumerate(row):
                if v is not None:
                    sh['cells'][f'{COLS[c]}{r + 1}'] = v
    qs = []
    on = []
    todo = []
    # totals of subtotals: a column of =SUM(row) formulas next to the grid and aggregates over that column (the first cell of the
    # area is itself a formula with an area inside)
    grid = spec['grid']
    if spec.get('subtotals') and not spec.get('overrides') and not any(kind(v) == 'date' for row in grid for v in row) and len(grid[0]) < 7:
        ncols_, nrows_ = len(grid[0]), len(grid)
        col = wbk.get_column_letter(ncols_ + 1)
        sums = []
        for r, row in enumerate(grid):
            sheets[0]['cells'][f'{col}{r + 1}'] = f'=SUM(A{r + 1}:{wbk.get_column_letter(ncols_)}{r + 1})'
            sums.append(sum(v for v in row if kind(v) == 'num'))
        rng = f'{col}1:{col}{nrows_}'
        sub = [('SUM', sum(sums)), ('MAX', max(sums)), ('MIN', min(sums)), ('COUNT', nrows_), ('AVERAGE', sum(sums) / nrows_)]
        for fn_, exp_ in sub:
            qs.append(Q(f'={fn_}({rng})', exp_, f'{fn_}:subtotals', nrows_ >= 2, [f'fn:{fn_}', 'subtotals']))
            on.append('S')
        if nrows_ >= 2:
            qs.append(Q(f'=SUM({col}1:{col}1,{col}2:{col}{nrows_})', sum(sums), 'SUM:subtotals-split', True, ['fn:SUM', 'subtotals']))
            on.append('S')
    for fs in spec['formulas']:
        todo.append((fs, 'S'))
        if spec.get('grid2') and not spec.get('overrides') and all(not a.get('sheet') and a['t'] in ('area', 'cell', 'col', 'num', 'word') for a in fs['args']) \
                and any(a['t'] not in ('num', 'word') for a in fs['args']):
            # the same text on the second sheet: unqualified references mean the sheet of the formula
            todo.append((fs, 'T'))
    for fs, home in todo:
        fn, args = fs['fn'], fs['args']
        n0 = len(qs)
        try:
            exp = fold(spec, fn, args if home == 'S' else [{**a, 'sheet': 'T'} if a['t'] not in ('num', 'word') else a for a in args])
        except Skip:
            continue
        call = f"{fn}({','.join(arg_text(a, spec) for a in args)})"
        nt, ks = stats(spec, args)
        tags = [f'fn:{fn}', f'nargs:{len(args)}'] + sorted({'arg:' + a['t'] + (':other-sheet' if a.get('sheet') else '') for a in args}) + \
               sorted({'content:' + k for k in ks})
        emb = fs.get('embed')
        if emb and fn not in ('AND', 'OR'):
            qs.append(Q(f'=1+{call}*2', 1 + exp * 2, f'{fn}:embedded', nt, tags + ['embedded']))
        else:
            qs.append(Q(f'={call}', exp, fn, nt, tags))
        if fs.get('split_partner') and fn in ('SUM', 'COUNT') and len(args) >= 2:
            parts = '+'.join(f"{fn}({arg_text(a, spec)})" for a in args)
            qs.append(Q(f'={parts}', exp, f'{fn}:sum-of-parts', nt, tags + ['sum-of-parts']))
        for q_ in qs[n0:]:
            on.append(home)
            if home == 'T':
                q_.tags.append('formula-on-second-sheet')
    ov = [(title_of(spec, o['sheet']), COLS[o['c']], str(o['r'] + 1), o['v']) for o in spec.get('overrides') or []]
    on = [title_of(spec, h) for h in on]
    if ov:
        for q_ in qs:
            q_.tags.append('overrides')
            if any(kind(grid_of(spec, o['sheet'])[o['r']][o['c']] if o['r'] < len(grid_of(spec, o['sheet'])) and o['c'] < len(grid_of(spec, o['sheet'])[0]) else None)
                   == 'blank' for o in spec['overrides']):
                q_.tags.append('override-of-a-blank-cell')
    return {'sheets': sheets, 'queries': qs, 'on': on, 'first_col': 12, 'ncols': 64, **({'overrides': ov} if ov else {}),
            'mode': 'entry' if spec.get('entry_mode') and not ov else 'whole'}  # one row: whole-column areas must not see the formula block


def run_case(spec):
    return fcase.run_spec(__import__('vf.props.c11', fromlist=['x']), spec)


# ------------------------------------------------------------------ generator

def strategy():
    from hypothesis import strategies as st
    WORDS = ['pear', 'x', 'abc', 'Total', 'n/a', 'yes', '#12', '#tag', '# of items']   # a text that starts with # is a text, not an error value
    num = st.one_of(st.integers(-50, 50), st.integers(-200, 200).map(lambda k: k / 4).filter(lambda x: x != int(x)),
                    st.integers(1, 9))
    base = st.one_of(num, num, num, st.sampled_from(WORDS), st.sampled_from(['12', '3.5', '007']), st.booleans(),
                     # texts that consist of blanks only are texts, not blank cells; words that python's float() accepts are words
                     st.sampled_from([' ', '   ', ' \t', '\xa0', 'nan', 'inf', '1_0']),
                     st.none(), st.none(), st.just('=""'))
    with_dates = st.one_of(base, st.sampled_from([{'$dt': '2024-02-29T00:00:00'}, {'$dt': '2020-01-01T00:00:00'}]))
    boolnum = st.one_of(st.booleans(), st.integers(-3, 3), st.sampled_from([0, 1, 0.5]))

    @st.composite
    def spec(draw):
        flavour = draw(st.sampled_from(['mixed', 'mixed', 'mixed', 'dates', 'logic']))
        cellst = {'mixed': base, 'dates': with_dates, 'logic': boolnum}[flavour]
        nrows, ncols = draw(st.integers(1, 6)), draw(st.integers(1, 6))
        grid = [[draw(cellst) for _ in range(ncols)] for _ in range(nrows)]
        grid2 = None
        if draw(st.booleans()):
            r2, c2 = draw(st.integers(1, 4)), draw(st.integers(1, 4))
            grid2 = [[draw(cellst) for _ in range(c2)] for _ in range(r2)]

        grid3 = None
        if draw(st.integers(0, 2)) == 0:
            r3, c3 = draw(st.integers(1, 4)), draw(st.integers(1, 4))
            grid3 = [[draw(cellst) for _ in range(c3)] for _ in range(r3)]
            if all(v is None for row in grid3 for v in row):
                grid3[0][0] = 1

        def area(sheet):
            g = {None: grid, 'T': grid2, 'U': grid3}[sheet]
            nr, nc = len(g), len(g[0])
            if sheet == 'U':
                # rectangles that reach up to three columns / rows beyond the used range of the data-only sheet: blank cells of the area
                c0, r0 = draw(st.integers(0, nc)), draw(st.integers(0, nr))
                c1, r1 = draw(st.integers(c0, nc + 2)), draw(st.integers(r0, nr + 2))
                if draw(st.booleans()):
                    c0, r0 = 0, draw(st.integers(0, nr - 1))
                return {'t': 'area', 'sheet': 'U', 'c0': c0, 'r0': r0, 'c1': c1, 'r1': r1}
            t = draw(st.sampled_from(['area', 'area', 'area', 'col', 'cell', 'row', 'colrange']))
            if t == 'cell':
                return {'t': 'cell', 'sheet': sheet, 'c': draw(st.integers(0, nc - 1)), 'r': draw(st.integers(0, nr - 1))}
            if t == 'col':
                c = draw(st.integers(0, nc - 1))
                c2_ = draw(st.integers(c, min(nc - 1, c + 2)))
                return {'t': 'col', 'sheet': sheet, 'c': c, 'c2': c2_}
            r0 = draw(st.integers(0, nr - 1))
            c0 = draw(st.integers(0, nc - 1))
            r1 = draw(st.integers(r0, nr - 1))
            c1 = draw(st.integers(c0, nc - 1))
            if t == 'row':
                r1 = r0
            if t == 'colrange':
                c1 = c0
            if r0 == r1 and c0 == c1:
                # a 1x1 "range" A1:A1 is legal; keep it occasionally, else widen
                if nr > 1 and r0 + 1 < nr:
                    r1 = r0 + 1
                elif nc > 1 and c0 + 1 < nc:
                    c1 = c0 + 1
            return {'t': 'area', 'sheet': sheet, 'c0': c0, 'r0': r0, 'c1': c1, 'r1': r1}

        formulas = []
        for _ in range(draw(st.integers(4, 10))):
            if flavour == 'logic':
                fn = draw(st.sampled_from(['AND', 'OR', 'AND', 'OR', 'SUM', 'COUNT']))
            elif flavour == 'dates':
                fn = draw(st.sampled_from(['COUNT', 'COUNT', 'COUNTBLANK', 'SUM']))
            else:
                fn = draw(st.sampled_from(['SUM', 'SUM', 'AVERAGE', 'MIN', 'MAX', 'COUNT', 'COUNTBLANK']))
            nargs = draw(st.sampled_from([1, 1, 2, 2, 3, 4]))
            args = []
            for _ in range(nargs):
                k = draw(st.integers(0, 9))
                if k == 2 and fn == 'COUNT':
                    args.append({'t': 'word', 'v': draw(st.sampled_from(['nan', 'inf', 'Infinity', '-inf', 'NaN', '1_0', 'abc', 'x', 'e5', '1e', '0x10']))})
                elif k == 0 and fn != 'COUNTBLANK':
                    args.append({'t': 'num', 'v': draw(st.one_of(st.integers(0, 20), st.sampled_from([2.5, 0.25])))})
                elif k == 1 and fn in ('AND', 'OR'):
                    args.append({'t': 'cmp', 'c': draw(st.integers(0, ncols - 1)), 'r': draw(st.integers(0, nrows - 1)),
                                 'op': draw(st.sampled_from(['<', '>', '='])), 'v': draw(st.integers(-2, 2))})
                else:
                    pick = draw(st.integers(0, 5))
                    args.append(area('T' if grid2 and pick == 0 else 'U' if grid3 and pick in (1, 2) else None))
            formulas.append({'fn': fn, 'args': args, 'embed': draw(st.integers(0, 4)) == 0,
                             'split_partner': draw(st.booleans())})
        overrides = []
        if draw(st.integers(0, 3)) == 0:
            # contents planted after translation: the aggregates fold what the cells hold now
            for _ in range(draw(st.integers(1, 4))):
                sh = draw(st.sampled_from(['S', 'S'] + (['T'] if grid2 else []) + (['U', 'U'] if grid3 else [])))
                g = {'S': grid, 'T': grid2, 'U': grid3}[sh]
                blanks = [(c, r) for r in range(len(g)) for c in range(len(g[0])) if g[r][c] is None]
                if blanks and draw(st.booleans()):
                    c, r = draw(st.sampled_from(blanks))
                else:
                    c, r = draw(st.integers(0, len(g[0]) - 1 + (2 if sh == 'U' else 0))), draw(st.integers(0, len(g) - 1 + (2 if sh == 'U' else 0)))
                overrides.append({'sheet': sh, 'c': c, 'r': r, 'v': draw(st.one_of(num, num, st.sampled_from(WORDS), st.none(), st.booleans()) if flavour != 'logic' else boolnum)})
        return {'grid': grid, 'grid2': grid2, 'grid3': grid3, 'formulas': formulas, 'subtotals': draw(st.integers(0, 2)) == 0, 'overrides': overrides,
                'titles': draw(st.integers(0, len(TITLE_SETS) - 1)), 'entry_mode': draw(st.integers(0, 3)) == 0}
    return spec()


NSHARD = 16


def plan(tier):
    n = 500 if tier == 'quick' else 6000
    return [{'kind': 'hyp', 'shard': i, 'examples': n} for i in range(NSHARD)]


def run_shard(spec, rec):
    import sys
    fcase.hyp_shard(sys.modules[__name__], strategy(), spec, rec)


def shrink_candidates(spec):
    fs = spec['formulas']
    for i in range(len(fs)):
        yield {**spec, 'formulas': [fs[i]]}
    if len(fs) == 1:
        f = fs[0]
        for i in range(len(f['args'])):
            if len(f['args']) > 1:
                yield {**spec, 'formulas': [{**f, 'args': f['args'][:i] + f['args'][i + 1:]}]}
        if f.get('embed') or f.get('split_partner'):
            yield {**spec, 'formulas': [{**f, 'embed': False, 'split_partner': False}]}
    if spec.get('grid2') and not any(a.get('sheet') for f in fs for a in f['args']):
        yield {**spec, 'grid2': None}
    for name in ('grid', 'grid2'):
        g = spec.get(name)
        if not g:
            continue
        for r in range(len(g)):
            for c in range(len(g[r])):
                if g[r][c] not in (None, 1):
                    for nv in (None, 1):
                        g2 = [list(row) for row in g]
                        g2[r][c] = nv
                        yield {**spec, name: g2}


MATCHERS = {}
