"""C12 - conditional aggregates select exactly the positions meeting every criterion.

Hypothesis: 1-3 criteria columns and a target column (aligned, plus deliberately misaligned variants) with numeric,
text (mixed case), mixed and blank contents; criteria: plain number / text (literal or cell reference),
operator-prefixed literals, operators assembled with & from a cell, wildcard patterns.
SUMIF (2 and 3 arguments), SUMIFS, COUNTIFS, AVERAGEIFS.
Oracle: select-then-fold over the generator's content map with an own wildcard matcher.
"""
import sys

from .. import env
from .. import wbk
from .. import fcase
from ..fcase import Q, ANY_ERR, OneOf

ID = 'C12'
LEVEL = 'exploration'
BUDGET_S = {'quick': 300, 'thorough': 1500}
RELATION = 'select-then-fold'
RULE = ('one workbook per case: generated criteria columns + target column and up to 8 conditional-aggregate formulas; '
        'non-trivial = at least one position is selected and one rejected and the criterion is not a plain equality on an '
        'all-numeric column (or the ranges are misaligned); distinct = distinct (columns, formula)')
ASSUMPTIONS = ['blank cells inside a criteria range are only asserted under text-equality, <>text and pattern criteria',
               'patterns are asserted over text/blank cells only; numeric-looking text cells are not placed under numeric criteria',
               'target ranges hold numbers and blanks (for SUMIF / SUMIFS also texts, which are left out); what AVERAGEIFS makes of a text in its target is not asserted; date criteria are not generated',
               'criterion texts are words (some of which a lenient date parser reads as dates: sat, jan, may) and texts that denote numbers; date texts such as 2021-06-25 are not generated',
               'an empty AVERAGEIFS selection and misaligned ranges must give an error outcome (error string or exception)']

COLS = 'ABCDEFGH'
WORDS = ['apple', 'Apple', 'APPLE', 'pear', 'Pear', 'plum', 'kiwi', 'Kiwi', 'grape', 'a?c', 'a*c', 'abc', 'aXc', 'axyc', 'zz', 'x',
         # words that a lenient date parser reads as dates: they are texts, equal only to themselves (whatever their case)
         'a~bcd', '~xy', 'a~b',
         # blanks at the ends are part of a text
         ' x', 'x ', ' X', 'pear ', ' pear',
         'sat', 'Saturday', 'may', 'May', 'jan', 'January', 'mon', 'Monday', 'a1', 'pm', 'noon', 'today']


# ------------------------------------------------------------------ own wildcard matcher

def wild_tokens(p):
    out, i = [], 0
    while i < len(p):
        ch = p[i]
        if ch == '~' and i + 1 < len(p) and p[i + 1] in '?*~':
            out.append(('lit', p[i + 1]))
            i += 2
            continue
        if ch == '?':
            out.append(('one', None))
        elif ch == '*':
            out.append(('any', None))
        else:
            out.append(('lit', ch))
        i += 1
    return out


def wild_match(p, s):
    toks = wild_tokens(p.lower())
    s = s.lower()

    def m(ti, si):
        if ti == len(toks):
            return si == len(s)
        k, ch = toks[ti]
        if k == 'any':
            return any(m(ti + 1, j) for j in range(si, len(s) + 1))
        if si >= len(s):
            return False
        if k == 'one' or ch == s[si]:
            return m(ti + 1, si + 1)
        return False
    return m(0, 0)


def has_wild(p):
    return any(k != 'lit' for k, _ in wild_tokens(p))


# ------------------------------------------------------------------ oracle

class Skip(Exception):
    pass


EMPTY_TEXT = '=""'      # a formula cell that evaluates to the empty text: a text cell, not a blank one


def ckind(v):
    if v is None:
        return 'blank'
    if v == EMPTY_TEXT:
        return 'emptytext'
    if isinstance(v, bool):
        return 'bool'
    if isinstance(v, (int, float)):
        return 'num'
    return 'text'


def accepts(crit, v):
    """Does criterion accept cell content v?  Raises Skip where the statement is silent."""
    form, k = crit['form'], ckind(v)
    if k == 'bool':
        raise Skip('boolean cell')
    if k == 'emptytext':
        # a text like any other under a numeric criterion (never a number: only <> accepts it); under text criteria and
        # patterns the statement is silent about the empty text
        if form in ('num', 'eq-num', 'op-num', 'amp-num', 'text-num', 'join-num'):
            return crit.get('op', '=') == '<>'
        raise Skip('empty text under a text criterion')
    if form in ('num', 'eq-num', 'op-num', 'amp-num', 'text-num', 'join-num'):
        if k == 'blank':
            raise Skip('blank under numeric criterion')
        if k == 'text':
            try:
                float(v)
                raise Skip('numeric-looking text under numeric criterion')
            except ValueError:
                pass
        op = crit.get('op', '=')
        n = crit['value']
        if k != 'num':
            return op == '<>'
        return {'=': v == n, '<>': v != n, '<': v < n, '<=': v <= n, '>': v > n, '>=': v >= n}[op]
    if form in ('text', 'eq-text', 'ne-text', 'join-text'):
        t = crit['value']
        eq = k == 'text' and v.lower() == t.lower()
        return (not eq) if form == 'ne-text' else eq
    if form == 'pattern':
        p = crit['value']
        if k == 'num':
            raise Skip('number under pattern')
        if k == 'blank':
            if all(tk == 'any' for tk, _ in wild_tokens(p)):
                raise Skip('blank under *')
            return False
        return wild_match(p, v)
    raise Skip(form)


def crit_text(crit, cellref=None):
    """Formula text of a criterion."""
    form = crit['form']
    v = crit['value']
    if crit.get('via') == 'cell':
        return cellref
    if form == 'num':
        return repr(v)
    if form == 'text' or form == 'pattern':
        return f'"{v}"'
    if form == 'eq-num':
        return f'"={v!r}"'
    if form == 'text-num':
        # a text that denotes a number ("3", "-3", "+2.5") selects the cells that hold this number
        return f'"{"+" if crit.get("plus") and v >= 0 else ""}{v!r}"'
    if form == 'op-num':
        # blanks around the number are no part of it: "> 2" is > 2
        return f'"{crit["op"]}{crit.get("padl", "")}{v!r}{crit.get("padr", "")}"'
    if form == 'amp-num':
        return f'"{crit["op"]}"&{cellref}'
    if form == 'join-num':
        # the digits of the number are split between the literal and a cell: ">2"&H1 with H1 = 7 is > 27
        return f'"{crit["op"]}{crit["head"]}"&{cellref}'
    if form == 'join-text':
        return f'"{crit["head"]}"&{cellref}'
    if form == 'eq-text':
        return f'"={v}"'
    if form == 'ne-text':
        return f'"<>{v}"'
    raise ValueError(form)


def selected(spec, pairs):
    n = len(spec['columns'][pairs[0]['col']])
    sel = []
    for i in range(n):
        ok = True
        for p in pairs:
            col = spec['columns'][p['col']]
            if not accepts(p['crit'], col[i]):
                ok = False
        sel.append(ok)
    return sel


def build(spec):
    cols = spec['columns']          # list of columns (lists of equal height, except 'short' ones)
    cells = {}
    for c, col in enumerate(cols):
        for r, v in enumerate(col):
            if v is not None:
                cells[f'{COLS[c]}{r + 1}'] = v
    # criterion cells live in column H
    hrow = [0]

    overrides = []

    # whole-column spelling of the ranges (A:A): only when every column has the height of the sheet - no short / shifted / re-shaped
    # ranges in the spec - and then the criterion cells go into row 1 far to the right, so that they add no rows
    whole = bool(spec.get('whole_cols')) and all(len(col) == len(cols[0]) for col in cols) and not any(
        fs_.get('misaligned') or fs_.get('wide') or fs_.get('target_shape') or fs_.get('target_as_cell') for fs_ in spec['formulas'])

    def crit_cell(v):
        hrow[0] += 1
        col_, row_ = ('H', str(hrow[0])) if not whole else (wbk.get_column_letter(90 + hrow[0]), '1')
        if spec.get('crit_override') and not isinstance(v, bool):
            # the workbook holds another value there: the criterion in force is the one set through the executor
            cells[f'{col_}{row_}'] = (v + 7) if isinstance(v, (int, float)) else 'zz-decoy'
            overrides.append(('S', col_, row_, v))
        else:
            cells[f'{col_}{row_}'] = v
        return f'{col_}{row_}'
    qs = []
    height = len(cols[0])

    def rng(c, h=None, off=0):
        if whole and h is None and off == 0:
            return f'{COLS[c]}:{COLS[c]}'
        return f'{COLS[c]}{1 + off}:{COLS[c]}{(h or len(cols[c])) + off}'
    for fi, fs in enumerate(spec['formulas']):
        fn, pairs, target = fs['fn'], fs['pairs'], fs.get('target')
        trig = sorted(triggers(spec, fs))
        ptexts = []
        for p in pairs:
            cr = p['crit']
            ref = None
            if cr['form'] in ('join-num', 'join-text'):
                ref = crit_cell(cr['tail'])
            elif cr.get('via') == 'cell' or cr['form'] == 'amp-num':
                ref = crit_cell(cr['value'])
            ptexts.append((rng(p['col']), crit_text(cr, ref)))
        mis = fs.get('misaligned')
        tags = [f'fn:{fn}', f'pairs:{len(pairs)}'] + sorted({'crit:' + p['crit']['form'] + (':cell' if p['crit'].get('via') == 'cell' else '') for p in pairs}) + \
               sorted({'col:' + '+'.join(sorted({ckind(v) for v in cols[p['col']]})) for p in pairs}) + \
               ['lane:' + ('finding' if trig else 'clean')] + [f'trig:{t}' for t in trig]
        try:
            if mis:
                # the target (or one criteria range) is one cell shorter: must be an error, never a number
                if fn == 'SUMIF':
                    continue
                short = f'{COLS[target]}1:{COLS[target]}{height - 1}' if fn != 'COUNTIFS' else None
                if fn == 'COUNTIFS':
                    if len(pairs) < 2:
                        continue
                    r0, c0 = ptexts[0]
                    args = [f'{COLS[pairs[0]["col"]]}1:{COLS[pairs[0]["col"]]}{height - 1}', c0] + [x for pt in ptexts[1:] for x in pt]
                    f = f'=COUNTIFS({",".join(args)})'
                else:
                    f = f'={fn}({short},{",".join(x for pt in ptexts for x in pt)})'
                qs.append(Q(f, ANY_ERR, f'{fn}:misaligned', True, tags + ['misaligned'], meta={'fi': fi, 'triggers': trig}))
                continue
            if fs.get('wide'):
                # two-column areas: positions pair up cell by cell (row-major); equal height but another width is misaligned
                ci = pairs[0]['col']
                if fn == 'SUMIF' or len(pairs) != 1 or ci + 1 >= target or target + 1 >= len(cols):
                    continue
                crit_area = f'{COLS[ci]}1:{COLS[ci + 1]}{height}'
                tgt_area = f'{COLS[target]}1:{COLS[target + 1]}{height}'
                ctext = ptexts[0][1]
                if fs['wide'] == 'misaligned':
                    if fn == 'COUNTIFS':
                        continue
                    qs.append(Q(f'={fn}({tgt_area},{ptexts[0][0]},{ctext})', ANY_ERR, f'{fn}:wide-misaligned', True, tags + ['wide-misaligned'],
                                meta={'fi': fi, 'triggers': trig}))
                    continue
                cvals = [cols[ci + dc][r] for r in range(height) for dc in (0, 1)]
                tvals = [cols[target + dc][r] for r in range(height) for dc in (0, 1)]
                if any(ckind(v) not in ('num', 'blank') for v in tvals):
                    raise Skip('non-numeric target')
                wsel = [accepts(pairs[0]['crit'], v) for v in cvals]
                picked = [t for t, s_ in zip(tvals, wsel) if s_]
                nums = [v for v in picked if ckind(v) == 'num']
                if fn == 'COUNTIFS':
                    exp, f = sum(1 for s_ in wsel if s_), f'=COUNTIFS({crit_area},{ctext})'
                elif fn == 'SUMIFS':
                    exp, f = sum(nums), f'=SUMIFS({tgt_area},{crit_area},{ctext})'
                else:
                    if any(ckind(v) == 'blank' for v in picked):
                        raise Skip('blank among averaged cells')
                    exp, f = ((sum(nums) / len(nums)) if nums else ANY_ERR), f'=AVERAGEIFS({tgt_area},{crit_area},{ctext})'
                qs.append(Q(f, exp, fn + ':wide:' + pairs[0]['crit']['form'], any(wsel) and not all(wsel), tags + ['wide'],
                            meta={'selected': wsel, 'fi': fi, 'triggers': trig}))
                continue
            sel = selected(spec, pairs)
            tcol = cols[target] if target is not None else cols[pairs[0]['col']]
            if fn not in ('COUNTIFS', 'SUMIF', 'SUMIFS') and any(ckind(v) not in ('num', 'blank') for v in tcol):
                raise Skip('non-numeric target')   # SUMIF / SUMIFS leave the texts of the sum range out like SUM does
            picked = [tcol[i] for i in range(len(sel)) if sel[i]]
            nums = [v for v in picked if ckind(v) == 'num']
            if fn == 'SUMIF':
                exp = sum(nums)
                if target is None:
                    f = f'=SUMIF({ptexts[0][0]},{ptexts[0][1]})'
                elif fs.get('target_as_cell'):
                    f = f'=SUMIF({ptexts[0][0]},{ptexts[0][1]},{COLS[target]}1)'
                elif fs.get('target_shape') == 'offset-col' and height >= 4:
                    # the criteria range starts in row 3, the sum range is a whole column: position i of the range pairs with row i of that column
                    k = 2
                    ci = pairs[0]['col']
                    sel_k = [accepts(pairs[0]['crit'], cols[ci][i]) for i in range(k, height)]
                    picked_k = [tcol[i] for i, ok in enumerate(sel_k) if ok]
                    exp = sum(v for v in picked_k if ckind(v) == 'num')
                    f = f'=SUMIF({COLS[ci]}{k + 1}:{COLS[ci]}{height},{ptexts[0][1]},{COLS[target]}:{COLS[target]})'
                    tags = tags + ['sumif-target:offset-col']
                elif fs.get('target_shape') in ('shorter', 'longer', 'row'):
                    # a sum range of another size: its first cell anchors a range with the shape of the criteria range (Excel),
                    # or the call is an error - but never a silently truncated or transposed fold
                    ts = fs['target_shape']
                    tr_ = {'shorter': f'{COLS[target]}1:{COLS[target]}{max(1, height - 2)}', 'longer': f'{COLS[target]}1:{COLS[target]}{height + 3}',
                           'row': f'{COLS[target]}1:{COLS[min(target + 3, 6)]}1'}[ts]
                    f = f'=SUMIF({ptexts[0][0]},{ptexts[0][1]},{tr_})'
                    exp = OneOf(exp, ANY_ERR)
                    tags = tags + ['sumif-target:' + ts]
                else:
                    f = f'=SUMIF({ptexts[0][0]},{ptexts[0][1]},{rng(target)})'
            elif fn == 'SUMIFS':
                exp = sum(nums)
                f = f'=SUMIFS({rng(target)},{",".join(x for pt in ptexts for x in pt)})'
            elif fn == 'COUNTIFS':
                exp = sum(1 for s in sel if s)
                f = f'=COUNTIFS({",".join(x for pt in ptexts for x in pt)})'
            else:
                if any(ckind(v) == 'blank' for v in picked):
                    raise Skip('blank among averaged cells')
                exp = (sum(nums) / len(nums)) if nums else ANY_ERR
                f = f'=AVERAGEIFS({rng(target)},{",".join(x for pt in ptexts for x in pt)})'
            plain_num_eq = all(p['crit']['form'] == 'num' and all(ckind(v) == 'num' for v in cols[p['col']]) for p in pairs)
            nt = any(sel) and not all(sel) and not plain_num_eq
            qs.append(Q(f, exp, fn + ':' + '+'.join(sorted({p['crit']['form'] for p in pairs})), nt, tags,
                        meta={'selected': sel, 'fi': fi, 'triggers': trig}))
        except Skip as e:
            continue
    for q_ in qs:
        if overrides:
            q_.tags.append('criterion-cell-overridden')
    if whole:
        for q_ in qs:
            q_.tags.append('whole-column-ranges')
    return {'sheets': [{'title': 'S', 'cells': cells}], 'queries': qs, 'first_col': 12, 'ncols': 64, 'overrides': overrides or None,
            'mode': 'entry' if spec.get('entry_mode') else 'whole'}


def run_case(spec):
    return fcase.run_spec(sys.modules[__name__], spec)


# ------------------------------------------------------------------ generator

def strategy():
    from hypothesis import strategies as st
    num = st.one_of(st.integers(-5, 12), st.integers(0, 6), st.sampled_from([2.5, 0.5, 7.25, -1.5]))
    word = st.sampled_from(WORDS)
    patterns = st.sampled_from(['a*', '*e', 'p*', '?pple', 'a?c', 'a~?c', 'a~*c', '*a*', 'k???', '????', 'a*c', '*', 'p?ar', 'A*', '*PLE', 'x', 'gr*e', 'a?*', '*?', '??*', 'p?*r', 'a~?*', '?*c', 'x?*', 'a~b*', '~x?', 'a~b?d', '*~b*', 'a~b~*', '~~*'])

    @st.composite
    def spec(draw):
        height = draw(st.integers(3, 10))
        flavours = draw(st.lists(st.sampled_from(['num', 'num', 'text', 'text', 'mixed', 'num+blank', 'text+blank', 'num+emptytext']), min_size=1, max_size=3))
        cols = []
        for fl in flavours:
            cellst = {'num': num, 'text': word, 'mixed': st.one_of(num, word), 'num+blank': st.one_of(num, num, st.none()),
                      'text+blank': st.one_of(word, word, st.none()), 'num+emptytext': st.one_of(num, num, num, st.just(EMPTY_TEXT))}[fl]
            cols.append([draw(cellst) for _ in range(height)])
        ncrit = len(cols)
        target = ncrit
        tcell = st.one_of(st.integers(1, 50), st.integers(-9, 50), st.none(), st.sampled_from([0.5, 2.25, 0, 0, 0.0, -1.5]))
        if draw(st.integers(0, 3)) == 0:
            # remarks inside the target column: a text there is left out of a sum, and must not shift the cells behind it
            tcell = st.one_of(tcell, tcell, tcell, st.sampled_from(['n/a', 'x', '-']))
        cols.append([draw(tcell) for _ in range(height)])
        # a second target column (for two-column target areas and as the landing zone of re-shaped SUMIF sum ranges)
        cols.append([draw(st.one_of(st.integers(51, 99), st.none())) for _ in range(height)])

        def crit_for(ci):
            fl = flavours[ci]
            col = cols[ci]
            present_nums = [v for v in col if ckind(v) == 'num']
            present_txt = [v for v in col if ckind(v) == 'text']
            choices = []
            if fl in ('num', 'mixed', 'num+blank', 'num+emptytext'):
                n = draw(st.one_of(st.sampled_from(present_nums) if present_nums else num, num))
                via = draw(st.sampled_from(['lit', 'lit', 'cell']))
                choices += [{'form': 'num', 'value': n, 'via': via}] * 2
                choices += [{'form': 'op-num', 'op': draw(st.sampled_from(['>', '<', '>=', '<=', '<>'])), 'value': n},
                            {'form': 'amp-num', 'op': draw(st.sampled_from(['>', '<', '>=', '<=', '<>'])), 'value': n}]
                choices += [{'form': 'op-num', 'op': draw(st.sampled_from(['>', '<', '>=', '<=', '<>', '='])), 'value': n,
                             'padl': draw(st.sampled_from(['', ' ', ' '])), 'padr': draw(st.sampled_from(['', '', ' ']))},
                            {'form': 'eq-num', 'value': n}, {'form': 'text-num', 'value': n, 'plus': draw(st.booleans())},
                            (lambda h_, t_: {'form': 'join-num', 'op': draw(st.sampled_from(['>', '<', '>=', '<=', '<>', '='])), 'head': h_, 'tail': t_,
                                             'value': int(f'{h_}{t_}')})(draw(st.integers(1, 9)), draw(st.integers(0, 9))),
                            {'form': 'amp-num', 'op': draw(st.sampled_from(['>', '<', '>=', '<=', '<>'])), 'value': n}]
            if fl in ('text', 'mixed', 'text+blank'):
                t = draw(st.one_of(st.sampled_from(present_txt) if present_txt else word, word))
                t = t.replace('?', 'q').replace('*', 'q')
                via = draw(st.sampled_from(['lit', 'lit', 'cell']))
                choices += [{'form': 'text', 'value': t, 'via': via}] * 3
                if len(t) >= 2 and '~' not in t:
                    choices += [{'form': 'join-text', 'head': t[:1], 'tail': t[1:], 'value': t}] * 2
                choices += [{'form': 'text', 'value': t, 'via': via}, {'form': 'ne-text', 'value': t},
                            {'form': 'eq-text', 'value': t}, {'form': 'pattern', 'value': draw(patterns)},
                            {'form': 'pattern', 'value': draw(patterns)}]
            return draw(st.sampled_from(choices))

        formulas = []
        for _ in range(draw(st.integers(3, 8))):
            fn = draw(st.sampled_from(['SUMIF', 'SUMIF', 'SUMIFS', 'COUNTIFS', 'COUNTIFS', 'AVERAGEIFS']))
            if fn == 'SUMIF':
                ci = draw(st.integers(0, ncrit - 1))
                tgt = draw(st.sampled_from([target, target, None]))
                formulas.append({'fn': fn, 'pairs': [{'col': ci, 'crit': crit_for(ci)}], 'target': tgt,
                                 'target_as_cell': draw(st.integers(0, 3)) == 0,
                                 'target_shape': draw(st.sampled_from([None, None, 'shorter', 'longer', 'row', 'offset-col']))})
            else:
                k = draw(st.integers(1, min(3, ncrit + 1)))
                pairs = []
                for _ in range(k):
                    ci = draw(st.integers(0, ncrit - 1))
                    pairs.append({'col': ci, 'crit': crit_for(ci)})
                wide = None
                same_flavour = [i for i in range(ncrit - 1) if flavours[i] == flavours[i + 1]]
                if same_flavour and draw(st.integers(0, 2)) == 0:
                    ci = draw(st.sampled_from(same_flavour))
                    pairs = [{'col': ci, 'crit': crit_for(ci)}]
                    wide = draw(st.sampled_from(['aligned', 'aligned', 'misaligned']))
                formulas.append({'fn': fn, 'pairs': pairs, 'target': target, 'misaligned': draw(st.integers(0, 7)) == 0 and not wide, 'wide': wide})
        return {'columns': cols, 'formulas': formulas, 'crit_override': draw(st.integers(0, 2)) == 0,
                'whole_cols': draw(st.integers(0, 2)) == 0, 'entry_mode': draw(st.integers(0, 5)) == 0}
    return spec()


NSHARD = 16


def plan(tier):
    n = 700 if tier == 'quick' else 8000
    return [{'kind': 'hyp', 'shard': i, 'examples': n} for i in range(NSHARD)]


def run_shard(spec, rec):
    fcase.hyp_shard(sys.modules[__name__], strategy(), spec, rec)


def shrink_candidates(spec):
    fs = spec['formulas']
    if len(fs) > 1:
        for i in range(len(fs)):
            yield {**spec, 'formulas': [fs[i]]}
        return
    f = fs[0]
    if len(f['pairs']) > 1:
        for i in range(len(f['pairs'])):
            yield {**spec, 'formulas': [{**f, 'pairs': f['pairs'][:i] + f['pairs'][i + 1:]}]}
    h = len(spec['columns'][0])
    if h > 2:
        for r in range(h):
            yield {**spec, 'columns': [c[:r] + c[r + 1:] for c in spec['columns']]}


# ------------------------------------------------------------------ structural triggers of the open findings

def triggers(spec, fs):
    t = set()
    for p in fs['pairs']:
        cr = p['crit']
        kinds = {ckind(v) for v in spec['columns'][p['col']]}
        if cr['form'] in ('eq-num', 'eq-text', 'ne-text'):
            t.add('eq-or-text-after-operator')
        if cr['form'] in ('op-num', 'amp-num') and cr.get('op') in ('<', '>', '<=', '>=') and 'text' in kinds:
            t.add('ordering-over-text-cells')
        if cr['form'] == 'pattern':
            t.add('pattern')
    return t


def _trig(f, name):
    return name in (((f.get('extra') or {}).get('meta') or {}).get('triggers') or [])


def case_features(f):
    """(set of criterion forms, set of column content kinds, function) of the single formula a failure is about."""
    spec = f['case']
    qi = (f.get('extra') or {}).get('formula')
    forms, kinds, fns = set(), set(), set()
    for fs in spec['formulas']:
        for p in fs['pairs']:
            forms.add(p['crit']['form'] + (':cell' if p['crit'].get('via') == 'cell' else ''))
            kinds |= {ckind(v) for v in spec['columns'][p['col']]}
        fns.add(fs['fn'])
    return forms, kinds, fns


MATCHERS = {
    'c12_eq_or_text_after_operator': lambda f: _trig(f, 'eq-or-text-after-operator'),
    'c12_ordering_over_text_cells': lambda f: _trig(f, 'ordering-over-text-cells') and f['actual'][0] == 'foreign' and f['actual'][1] == 'TypeError',
    'c12_pattern': lambda f: _trig(f, 'pattern'),
}
