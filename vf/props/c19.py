"""C19 - the safety gate reports exactly the Python-like cells.

Hypothesis: 1-3 sheets (titles with spaces too), 0-6 planted suspicious cells (lower/mixed-case identifier immediately followed
by a parenthesised list, no upper-case call in the same cell) and 0-10 innocent cells (upper-case Excel calls, parentheses not
preceded by an identifier, 'print (1)', numbers, dates), as constants and inside formulas, at arbitrary (sheet, column, row);
safety check enabled / disabled.
Oracle: the planted positions.
"""
import os

from .. import env
from .. import wbk
from ..run import hyp_run

ID = 'C19'
LEVEL = 'exploration'
BUDGET_S = {'quick': 300, 'thorough': 1200}
RULE = ('one workbook per case, translated with the safety check enabled and disabled; a case = (workbook, setting); '
        'non-trivial = at least two suspicious cells on two different rows whose row differs from their column index, and at least '
        'one innocent upper-case call present; distinct = distinct (workbook, setting)')
ASSUMPTIONS = ['cells mixing lower-case and upper-case calls, identifiers ending in an upper-case letter and fragments spanning a newline are not planted',
               'the exact key format of suspicious_cells is not asserted: a key must contain the true title and end with the true A1 address']

SUSPICIOUS = ['eval(1)', 'os.system("x")', 'foo()', 'a(b)c(d)', 'print(1)', '__import__("os")', 'Exec(x)', 'open(f).read()', 'x1(2)', 'lambda_(3)',
              'exec(compile(s))', 'getattr(o,n)',
              # lower-case calls that are spelled like Excel functions, and calls next to quoted text
              'max(1,2)', 'sum(a)', 'round(2.5,0)', 'if(x)', 'say "eval(1)" twice', '"a" exec(b) "c"', 'today()',
              # characters that mean something in a format string
              'eval(50%)', 'print("%s" % x)', 'fmt(%d)', 'pct(100%%)', 'f({0})', 'g({x})', 'h(%(a)s)']
INNOCENT_TEXT = ['SUM(1)', '(hello)', 'print (1)', 'a (b)', 'no call here', '( )', 'IF(A1,1,2)', 'x - (y)', '100%', 'f( is open', 'MAX(MIN(1,2),3)']
INNOCENT_FORMULA = ['=SUM(1,2)', '=IF(1>0,1,2)', '=MAX(1,2)+MIN(3,4)', '=1+2', '=ROUND(2.5,0)', '="(text)"']
SUSPICIOUS_FORMULA = ['=foo(1)', '=eval(2)+1', '=1+os.getcwd()', '=a(b)', '=A1+max(A1,A2)', '=sum(1,2)*2', '=A1-round(2.5,0)', '=A1&"eval(1)"', '="a"&exec(A1)&"b"',
                      '=A1&"x"&os.system(A2)&"y"', '="x"&"y"&len(A1)', '=eval(50%)', '=1+foo(A1%)']


def fragments_of(text):
    """What the statement calls call syntax: identifier immediately followed by a parenthesised list (own scanner)."""
    out = []
    i = 0
    n = len(text)
    while i < n:
        if text[i].isalnum() or text[i] == '_':
            j = i
            while j < n and (text[j].isalnum() or text[j] == '_') and text[j].isascii():
                j += 1
            if j < n and text[j] == '(' and j > i:
                k = text.find(')', j)
                if k != -1:
                    out.append(text[i:k + 1])
                    i = k + 1
                    continue
            i = max(j, i + 1)
        else:
            i += 1
    return out


def run_spec(spec, rec=None):
    model = {'sheets': [{'title': sh['title'], 'cells': {wbk.a1(c, r): v for (c, r, v, _) in sh['cells']}} for sh in spec['sheets']]}
    planted = [(sh['title'], c, r, v) for sh in spec['sheets'] for (c, r, v, kind) in sh['cells'] if kind == 'suspicious']
    innocent = [(sh['title'], c, r, v) for sh in spec['sheets'] for (c, r, v, kind) in sh['cells'] if kind == 'innocent']
    has_upper_call = any(isinstance(v, str) and any(f.split('(')[0].isupper() for f in fragments_of(v)) for (_, _, _, v) in innocent)
    rows = {r for (_, _, r, _) in planted}
    nt = len(planted) >= 2 and len(rows) >= 2 and any(c != r for (_, c, r, _) in planted) and has_upper_call
    path = wbk.write_xlsx(model)
    fails = []

    def fail(rel, bucket, expected, actual, extra=None):
        fails.append({'case': spec, 'expected': expected, 'actual': actual, 'relation': rel, 'bucket': bucket, 'extra': extra})
    try:
        for safety in (True, False):
            def go():
                try:
                    return ('text', wbk.translate_path(path, safety=safety))
                except wbk.excel2pycl.E2PyclSafetyException as e:
                    return ('safety', dict(e.suspicious_cells))
            o = wbk.outcome(go)
            if rec:
                rec.case({'spec': spec, 'safety': safety}, nt, ['safety:' + ('on' if safety else 'off'), f'suspicious:{min(len(planted), 3)}+' if len(planted) >= 3 else f'suspicious:{len(planted)}',
                                                               'innocent-upper-call' if has_upper_call else 'no-upper-call',
                                                               'row!=col' if any(c != r for (_, c, r, _) in planted) else 'row==col-or-none'] +
                         (['in-formula'] if any(str(v).startswith('=') for (_, _, _, v) in planted) else []),
                         sample={'sheets': model['sheets'], 'safety': safety, 'planted': [[t, wbk.a1(c, r), v] for (t, c, r, v) in planted]})
            if o[0] == 'timeout':
                continue
            kind = o[1][0] if o[0] == 'value' else o[0]
            if not safety:
                if kind == 'safety':
                    fail('disabled-never-raises-safety', 'disabled:raised', 'no safety exception', wbk.show_outcome(o))
                continue
            if not planted:
                if kind == 'safety':
                    fail('innocent-workbook-not-rejected', 'innocent:rejected', 'no safety exception', {'suspicious_cells': o[1][1]})
                continue
            if kind != 'safety':
                fail('suspicious-workbook-rejected', 'suspicious:accepted', 'E2PyclSafetyException', wbk.show_outcome(o) if o[0] != 'value' else 'translated')
                continue
            listed = o[1][1]
            # bijection between planted cells and listed keys
            keys = list(listed)
            unmatched_keys = set(keys)
            problems = []
            # most specific titles first, so that 'S' cannot grab the key of 'My Sheet'
            for (t, c, r, v) in sorted(planted, key=lambda p: -len(p[0])):
                addr = wbk.a1(c, r)
                cands = [k for k in unmatched_keys if k.endswith(addr) and t in k[:len(k) - len(addr)]]
                cands.sort(key=lambda k: (k != f"'{t}'{addr}", len(k)))
                # the address must be the whole trailing address: 'S'AB12 must not match B12
                cands = [k for k in cands if not (len(k) > len(addr) and k[-len(addr) - 1].isalpha() and k[-len(addr) - 1].isupper() and not t.endswith(k[-len(addr) - 1]))]
                if not cands:
                    problems.append(f'{t}!{addr} not listed')
                    continue
                k = cands[0]
                unmatched_keys.discard(k)
                frs = fragments_of(str(v))
                got = listed[k]
                if not all(any(fr in str(g) for g in (got if isinstance(got, (list, tuple)) else [got])) for fr in frs):
                    problems.append(f'{t}!{addr} fragments {frs} not in {got}')
            if unmatched_keys:
                problems.append(f'extra entries {sorted(unmatched_keys)}')
            if problems:
                fail('lists-exactly-the-planted-cells', 'listing:' + ('address' if any('not listed' in p for p in problems) else 'fragments' if any('fragments' in p for p in problems) else 'extra'),
                     [[t, wbk.a1(c, r), v] for (t, c, r, v) in planted], listed, {'problems': problems})
        if planted:
            fails += one_parser_sequences(spec, model, path, rec)
        return fails
    finally:
        try:
            os.unlink(path)
        except OSError:
            pass


def one_parser_sequences(spec, model, path, rec):
    """The gate on a long-lived Parser: toggling the setting, and a file whose content changes under the same path."""
    fails = []

    def kind_of(fn):
        def go():
            try:
                fn()
                return 'text'
            except wbk.excel2pycl.E2PyclSafetyException:
                return 'safety'
        o = wbk.outcome(go)
        return o[1] if o[0] == 'value' else o[0] + ':' + (o[1] if len(o) > 1 else '')

    def fail(bucket, expected, actual):
        fails.append({'case': spec, 'expected': expected, 'actual': actual, 'relation': 'gate-follows-the-current-setting-and-content',
                      'bucket': bucket, 'extra': None})
    # (a) disabled -> translated; enabled -> rejected; disabled again -> translated
    p = wbk.Parser().set_excel_file_path(path)
    p.disable_safety_check()
    seq = [kind_of(p.get_translation)]
    p.enable_safety_check()
    seq.append(kind_of(p.get_translation))
    seq.append(kind_of(p.get_translation))
    p.disable_safety_check()
    seq.append(kind_of(p.get_translation))
    if rec:
        rec.count('toggle_sequences')
    if 'timeout' not in ''.join(seq) and seq != ['text', 'safety', 'safety', 'text']:
        if not any(x.startswith(('lib:', 'foreign:')) for x in seq):
            fail('toggle-on-one-parser', ['text', 'safety', 'safety', 'text'], seq)
    # (b) an innocent file passes the enabled gate; the same path then holds the suspicious workbook
    innocent = {'sheets': [{'title': sh['title'], 'cells': {'A1': 1}} for sh in model['sheets']]}
    p2path = wbk.new_path()
    try:
        wbk.write_xlsx(innocent, p2path)
        q = wbk.Parser().set_excel_file_path(p2path)
        q.enable_safety_check()
        first = kind_of(q.get_translation)
        wbk.write_xlsx(model, p2path)
        q.set_excel_file_path(p2path)
        second = kind_of(q.get_translation)
        if first == 'text' and second not in ('safety',) and 'timeout' not in second:
            fail('same-path-new-content', ['text', 'safety'], [first, second])
    finally:
        try:
            os.unlink(p2path)
        except OSError:
            pass
    return fails


def run_case(spec):
    return run_spec(spec)


def strategy():
    from hypothesis import strategies as st
    titles = st.sampled_from(['S', 'Data', 'My Sheet', 'Лист 1', 'a-b', 'B2', 'x.y', "Bob's data", "it's", 'a%b', '100%', '%s', '{0}'])

    @st.composite
    def spec(draw):
        n = draw(st.integers(1, 3))
        ts = draw(st.lists(titles, min_size=n, max_size=n, unique=True))
        nsus = draw(st.sampled_from([0, 0, 1, 2, 2, 3, 4, 6]))
        ninn = draw(st.integers(0, 10))
        cells = {}
        for kind, k in (('suspicious', nsus), ('innocent', ninn)):
            for _ in range(k):
                si = draw(st.integers(0, n - 1))
                c = draw(st.one_of(st.integers(1, 8), st.sampled_from([27, 30, 53])))
                r = draw(st.one_of(st.integers(1, 12), st.sampled_from([40, 100])))
                if (si, c, r) in cells:
                    continue
                if kind == 'suspicious':
                    v = draw(st.one_of(st.sampled_from(SUSPICIOUS), st.sampled_from(SUSPICIOUS).map(lambda s: 'note: ' + s + ' end'),
                                       st.sampled_from(SUSPICIOUS_FORMULA), st.tuples(st.sampled_from(SUSPICIOUS), st.sampled_from(SUSPICIOUS)).map(lambda t: t[0] + ' ' + t[1]),
                                       # a long text constant: the call sits far behind the beginning (a cell holds up to 32767 characters)
                                       st.tuples(st.sampled_from(SUSPICIOUS), st.sampled_from([8200, 9000, 16400, 30000])).map(lambda t: 'lorem ipsum ' * (t[1] // 12) + t[0]),
                                       st.tuples(st.sampled_from(SUSPICIOUS), st.sampled_from(SUSPICIOUS), st.sampled_from([8200, 12000])).map(
                                           lambda t: t[0] + ' ' + 'dolor sit ' * (t[2] // 10) + t[1])))
                else:
                    v = draw(st.one_of(st.sampled_from(INNOCENT_TEXT), st.sampled_from(INNOCENT_FORMULA), st.integers(-5, 5000),
                                       st.just({'$dt': '2024-02-29T00:00:00'}), st.sampled_from([1.5, True])))
                cells[(si, c, r)] = (v, kind)
        sheets = [{'title': t, 'cells': []} for t in ts]
        for (si, c, r), (v, kind) in sorted(cells.items()):
            sheets[si]['cells'].append([c, r, v, kind])
        return {'sheets': sheets}
    return spec()


NSHARD = 16


def plan(tier):
    n = 700 if tier == 'quick' else 5000
    return [{'kind': 'hyp', 'shard': i, 'examples': n} for i in range(NSHARD)] + [{'kind': 'many', 'shard': 100, 'sizes': [60, 99, 100, 101, 150, 300]}]


def many_spec(n, seed):
    """n suspicious cells spread over two sheets, a few innocent ones in between"""
    import random
    rnd = random.Random(seed)
    sheets = [{'title': 'Data', 'cells': []}, {'title': 'My Sheet', 'cells': []}]
    used = set()
    for i in range(n):
        while True:
            si, c, r = rnd.randrange(2), rnd.randrange(1, 15), rnd.randrange(1, 40)
            if (si, c, r) not in used:
                used.add((si, c, r))
                break
        sheets[si]['cells'].append([c, r, rnd.choice(SUSPICIOUS), 'suspicious'])
    for i in range(10):
        si, c, r = rnd.randrange(2), rnd.randrange(16, 20), rnd.randrange(1, 40)
        if (si, c, r) not in used:
            used.add((si, c, r))
            sheets[si]['cells'].append([c, r, rnd.choice(INNOCENT_TEXT), 'innocent'])
    return {'sheets': sheets}


def run_shard(spec, rec):
    if spec['kind'] == 'many':
        for n in spec['sizes']:
            for f in run_spec(many_spec(n, env.derive_seed('c19-many', n)), rec):
                rec.fail(**f)
        return

    def body(s):
        for f in run_spec(s, rec):
            rec.fail(**f)
    hyp_run(strategy(), body, spec['examples'], ('c19', spec['shard']), rec)


def shrink_candidates(spec):
    shs = spec['sheets']
    for i, sh in enumerate(shs):
        for j in range(len(sh['cells'])):
            s2 = [dict(x) for x in shs]
            s2[i]['cells'] = sh['cells'][:j] + sh['cells'][j + 1:]
            yield {**spec, 'sheets': s2}
    if len(shs) > 1:
        for i in range(len(shs)):
            if not shs[i]['cells']:
                yield {**spec, 'sheets': shs[:i] + shs[i + 1:]}


MATCHERS = {}
