"""C16 - rounding and percent are decimal-exact.

Grid: sign x integer part x all four-digit fractions x digits -3..6 x {ROUND, ROUNDUP, ROUNDDOWN} and x%,
driven through one translated workbook by overrides (bulk), plus samples as literals and workbook constants and
Hypothesis-drawn decimals with up to 15 significant digits.
Oracle: decimal.Decimal(text).quantize(10**-n, ROUND_HALF_UP | ROUND_UP | ROUND_DOWN) -> nearest double.
"""
import decimal
import random
from decimal import Decimal

from .. import env
from .. import wbk
from ..run import hyp_run

ID = 'C16'
LEVEL = 'exploration'
BUDGET_S = {'quick': 300, 'thorough': 1500}
RULE = ('points (decimal text x, digit count n, function) with x on the grid sign x {0,1,2,7,10,99,123,1000,12345} x '
        '.0000-.9999 (quick: every tie, every fraction ending in 0 or 5, stride-37 background; thorough: all) and n in -3..6, '
        'plus Hypothesis decimals of up to 15 significant digits; supplied by override (bulk), literal and workbook constant; '
        'percent points x% over the same values; non-trivial = x is not already representable at n digits (for %: x != 0); '
        'ties and negatives are tagged; distinct = distinct (function, x text, n, via)')
ASSUMPTIONS = ['the operand is the double nearest to the decimal text (<= 15 significant digits), as Excel stores it',
               'x% is compared with relative tolerance 1e-15 (15 significant digits)']

FUNCS = ['ROUND', 'ROUNDUP', 'ROUNDDOWN']
MODES = {'ROUND': decimal.ROUND_HALF_UP, 'ROUNDUP': decimal.ROUND_UP, 'ROUNDDOWN': decimal.ROUND_DOWN}
INTS = [0, 1, 2, 7, 10, 99, 123, 1000, 12345]
DIGITS = list(range(-3, 7))
CTX = decimal.Context(prec=60)


def oracle(fn, xtext, n):
    d = Decimal(xtext)
    q = d.quantize(Decimal(1).scaleb(-n), rounding=MODES[fn], context=CTX)
    return float(q)


def oracle_pct(xtext):
    return float(f'{Decimal(xtext) / 100:.15g}')


def representable(xtext, n):
    d = Decimal(xtext)
    return d == d.quantize(Decimal(1).scaleb(-n), rounding=decimal.ROUND_DOWN, context=CTX)


def is_tie(xtext, n):
    d = abs(Decimal(xtext))
    scaled = d.scaleb(n)
    return scaled - scaled.to_integral_value(rounding=decimal.ROUND_FLOOR) == Decimal('0.5')


def to_number(xtext):
    """What the cell holds: an int when the text is integral (as xlsx stores it), else the nearest double."""
    d = Decimal(xtext)
    if d == d.to_integral_value():
        return int(d)
    return float(xtext)


_TR = {}


def base_tr():
    if 'o' not in _TR:
        cells = {'C1': '=ROUND(A1,B1)', 'D1': '=ROUNDUP(A1,B1)', 'E1': '=ROUNDDOWN(A1,B1)', 'F1': '=A1%',
                 'G1': '=ROUNDUP(A1)', 'H1': '=ROUNDDOWN(A1)', 'I1': '=A1%+B1', 'J1': '=A1%-B1', 'K1': '=B1+A1%'}
        o = wbk.translate_model({'sheets': [{'title': 'S', 'cells': cells}]})
        if o[0] != 'value':
            raise env.HarnessError(f'C16 base workbook does not translate: {o}')
        _TR['o'] = o[1]
    return _TR['o']


COL = {'ROUND': 'C', 'ROUNDUP': 'D', 'ROUNDDOWN': 'E', 'PCT': 'F', 'ROUNDUP1': 'G', 'ROUNDDOWN1': 'H', 'PCT+N': 'I', 'PCT-N': 'J', 'N+PCT': 'K'}


def eval_override(xtext, n, fns, ex=None):
    """ex: a long-lived executor (the grid lane keeps one per operand value, so one instance of the class sees the digit counts
    -3 .. 6 one after the other); None: a fresh one"""
    tr = base_tr()
    ex = ex or tr.executor()
    o_set = wbk.outcome(lambda: ex.set_cells([wbk.Cell('S', 'A', '1', to_number(xtext)), wbk.Cell('S', 'B', '1', n)]))
    if o_set[0] != 'value':
        return {fn: o_set for fn in fns}
    return {fn: tr.get('S', COL[fn], '1', ex) for fn in fns}


def check_value(fn, xtext, n, via, o):
    case = {'fn': fn, 'x': xtext, 'n': n, 'via': via}
    if fn == 'PCT':
        exp = oracle_pct(xtext)
    elif fn in ('PCT+N', 'PCT-N', 'N+PCT'):
        # a percent followed by a binary + or - is the percentage plus / minus the next operand
        pv = oracle_pct(xtext)
        exp = pv - n if fn == 'PCT-N' else pv + n
        if o[0] == 'value' and type(o[1]) in (int, float) and abs(o[1] - exp) <= 1e-12 * max(1.0, abs(exp)):
            return None
    else:
        exp = oracle(fn[:-1] if fn.endswith('1') else fn, xtext, n)
    if o[0] == 'timeout':
        return None
    if o[0] != 'value':
        return {'case': case, 'expected': exp, 'actual': wbk.show_outcome(o), 'relation': 'decimal-quantize',
                'bucket': f'{fn}:raises:{o[1]}'}
    v = o[1]
    ok = type(v) in (int, float) and (v == exp or (fn == 'PCT' and abs(v - exp) <= 1e-15 * abs(exp)))
    if ok:
        return None
    d = Decimal(xtext)
    kind = 'tie' if fn != 'PCT' and is_tie(xtext, n) else 'neg' if d < 0 else 'pos'
    return {'case': case, 'expected': exp, 'actual': wbk.show(v), 'relation': 'decimal-quantize',
            'bucket': f'{fn}:{kind}:{"n<0" if n < 0 else "n>=0"}'}


def tags(fn, xtext, n):
    t = [f'fn:{fn}']
    if fn != 'PCT':
        if is_tie(xtext, n):
            t.append('tie')
        t.append('digits:' + ('neg' if n < 0 else 'zero' if n == 0 else 'pos'))
    if Decimal(xtext) < 0:
        t.append('negative')
    return t


def nontrivial(fn, xtext, n):
    if fn == 'PCT':
        return Decimal(xtext) != 0
    return not representable(xtext, n)


def run_case(case):
    fn, x, n, via = case['fn'], case['x'], case['n'], case.get('via', 'override')
    if via in ('override', 'override-float'):
        o = eval_override(x, float(n) if via == 'override-float' else n, [fn])[fn]
    else:
        o = eval_cells([(fn, x, n)], via)[0]
    f = check_value(fn, x, n, via, o)
    return [f] if f else []


def formula_for(fn, a, b):
    if fn == 'PCT':
        return f'={a}%'
    if fn.endswith('1'):
        return f'={fn[:-1]}({a})'
    return f'={fn}({a},{b})'


def eval_cells(points, via):
    cells, formulas = {}, []
    for r, (fn, x, n) in enumerate(points, 1):
        if via == 'cell':
            cells[f'A{r}'] = to_number(x)
            cells[f'B{r}'] = n
            # an even run of minus signs in front of the operand leaves the number what it is
            formulas.append(formula_for(fn, {1: '--', 3: '- -', 5: '+--'}.get(r % 7, '') + f'A{r}', f'B{r}'))
        else:
            a = x
            if r % 3 == 0:
                # the same decimal in exponent spelling (4.5e-3, 1.23456789e4): a literal denotes the double nearest to its text
                sign_, digits_, exp_ = Decimal(x).as_tuple()
                ds = ''.join(map(str, digits_)).lstrip('0') or '0'
                if ds != '0':
                    exp_ += len(''.join(map(str, digits_))) - len(''.join(map(str, digits_)).lstrip('0')) - 0
                    ds2 = ds.rstrip('0') or '0'
                    e10 = exp_ + (len(ds) - len(ds2)) + len(ds2) - 1
                    a = ('-' if sign_ else '') + ds2[0] + ('.' + ds2[1:] if len(ds2) > 1 else '') + f'e{e10}'
                    assert Decimal(a) == Decimal(x), (a, x)
            if r % 7 == 1:
                a = '--' + a
            formulas.append(formula_for(fn, a, str(n)))
    return wbk.eval_formulas([{'title': 'S', 'cells': cells}], formulas, first_col=4, ncols=6)


def grid_values(tier):
    """decimal texts of the grid (without sign)."""
    out = []
    for ip in INTS:
        for fr in range(10000):
            if tier == 'quick' and not (fr % 5 == 0 or fr % 37 == 0 or fr in (1, 3, 41, 4999, 5001, 9999, 45, 55, 4445)):
                continue
            out.append(f'{ip}.{fr:04d}')
    return out


NSHARD = 16


def plan(tier):
    specs = [{'kind': 'grid', 'shard': i} for i in range(NSHARD)]
    specs += [{'kind': 'cells', 'shard': 20 + i, 'via': via, 'part': i % 2} for i, via in enumerate(['cell', 'cell', 'literal', 'literal'])]
    specs += [{'kind': 'hyp', 'shard': 100 + i, 'examples': 4000 if tier == 'quick' else 100000} for i in range(NSHARD)]
    return specs


def run_shard(spec, rec):
    tier = rec.tier
    if spec['kind'] == 'grid':
        vals = grid_values(tier)
        mine = vals[spec['shard']::NSHARD]
        rec.exhaustive = True
        nt_hashes = set()
        evals = 0
        classes = {}
        for xt in mine:
            if rec.out_of_time():
                rec.exhaustive = False
                break
            ex_x = base_tr().executor()
            for sign in ('', '-'):
                x = sign + xt
                if sign and Decimal(xt) == 0:
                    continue
                for n in DIGITS:
                    outs = eval_override(x, n, FUNCS + (['PCT', 'ROUNDUP1', 'ROUNDDOWN1'] if n == 0 else []) + (['PCT+N', 'PCT-N', 'N+PCT'] if n in (-3, 0, 2) else []), ex_x)
                    for fn, o in outs.items():
                        evals += 1
                        if nontrivial(fn, x, n):
                            nt_hashes.add(env.chash([fn, x, n, 'override']))
                            if len(rec.samples) < 3:
                                rec.samples.append({'fn': fn, 'x': x, 'n': n, 'via': 'override',
                                                    'expected': oracle(fn[:-1] if fn.endswith('1') else fn, x, n) if fn != 'PCT' else oracle_pct(x)})
                        for t in tags(fn, x, n):
                            classes[t] = classes.get(t, 0) + 1
                        f = check_value(fn, x, n, 'override', o)
                        if f:
                            rec.fail(**f)
        rec.bulk(evals, nt_hashes, classes)
        rec.count('via:override', evals)
    elif spec['kind'] == 'cells':
        via = spec['via']
        rnd = random.Random(env.derive_seed('c16', via))
        vals = grid_values('thorough')
        n_pts = 1200 if tier == 'quick' else 20000
        pts = []
        for _ in range(n_pts):
            x = rnd.choice(['', '-']) + rnd.choice(vals)
            if Decimal(x) == 0:
                x = '0.0000'
            fn = rnd.choice(FUNCS + ['PCT'])
            pts.append((fn, x, rnd.choice(DIGITS)))
        mine = pts[spec['part']::2]
        for i in range(0, len(mine), 150):
            if rec.out_of_time():
                break
            chunk = mine[i:i + 150]
            for (fn, x, n), o in zip(chunk, eval_cells(chunk, via)):
                rec.case({'fn': fn, 'x': x, 'n': n, 'via': via}, nontrivial(fn, x, n), tags(fn, x, n) + [f'via:{via}'])
                f = check_value(fn, x, n, via, o)
                if f:
                    rec.fail(**f)
    else:
        from hypothesis import strategies as st
        dec = st.tuples(st.booleans(), st.integers(1, 10 ** 15 - 1), st.integers(0, 15)).map(
            lambda t: ('-' if t[0] else '') + format(Decimal(t[1]).scaleb(-t[2]), 'f'))
        # small and large magnitudes too (15 significant digits are not 15 decimals)
        tiny = st.tuples(st.booleans(), st.integers(1, 99999), st.integers(8, 22)).map(lambda t: ('-' if t[0] else '') + format(Decimal(t[1]).scaleb(-t[2]), 'f'))
        big = st.tuples(st.booleans(), st.integers(1, 10 ** 15 - 1)).map(lambda t: ('-' if t[0] else '') + str(t[1]))
        pt = st.tuples(st.one_of(dec, dec, tiny, big), st.sampled_from(DIGITS + [7, 8, 10, -5]), st.sampled_from(FUNCS + ['PCT', 'PCT']))

        def body(p):
            x, n, fn = p
            # the digit count may arrive as a whole float (2.0) as well as an int
            via = 'override-float' if (len(x) + n) % 3 == 0 else 'override'
            o = eval_override(x, float(n) if via == 'override-float' else n, [fn])[fn]
            rec.case({'fn': fn, 'x': x, 'n': n, 'via': via}, nontrivial(fn, x, n), tags(fn, x, n) + ['via:' + via + '-drawn'])
            f = check_value(fn, x, n, via, o)
            if f:
                rec.fail(**f)
        hyp_run(pt, body, spec['examples'], ('c16', spec['shard']), rec)


def shrink_candidates(case):
    x = case['x']
    if len(x) > 2:
        for i in range(len(x)):
            y = x[:i] + x[i + 1:]
            try:
                Decimal(y)
            except decimal.InvalidOperation:
                continue
            if y and y not in ('-', '.', '-.') and not y.endswith('.') and not y.startswith('.') and not y.startswith('-.'):
                yield {**case, 'x': y}
    if case['n'] not in (0, 1):
        yield {**case, 'n': 1}
        yield {**case, 'n': 0}


MATCHERS = {}
