"""C08 - evaluation is pure and repeatable; all query APIs agree.

Hypothesis RuleBasedStateMachine over a generated workbook (total formulas, 1-3 sheets, sparse layout, optional override set applied
once at the start).  Rules: get_cell (numeric / A1-style / title-or-index addressing, fresh or re-used Cell objects incl. the very
objects passed to set_cells), get_cells (lists with repeats, mixed sheets), get_sheet (by index / by title), a second Executor on
the same class object queried in between.
Model: the value table computed once (one fresh Executor per cell) and cross-checked against the reference evaluator.
"""
import copy
import json

from .. import env
from .. import wbk
from ..ref import formula as F

ID = 'C08'
LEVEL = 'exploration'
BUDGET_S = {'quick': 300, 'thorough': 1500}
RULE = ('stateful: a history = generated workbook + override set + sequence of up to 30 query calls; every returned value is compared '
        'with the value table (computed once with one fresh Executor per cell, cross-checked against the reference evaluator); '
        'get_sheet must have exactly last_row x last_column entries for the used range extended by the overrides; sheet sizes are '
        'compared before/after; a case = one history; non-trivial = >= 6 calls using >= 2 APIs and >= 2 addressing spellings with '
        'some cell queried twice with other queries in between; distinct = distinct history JSON')
ASSUMPTIONS = ['formulas come from a total sub-grammar (+, *, SUM, IF, MAX, comparisons, cross-sheet references); COLUMN over a multi-column area '
               '(which rewrites neighbouring translations) is excluded', 'values are compared with == and by blank-ness']

L = wbk.get_column_letter
FORMULAS = ['=A1+B1', '=A1*2+1', '=SUM(A1:B3)', '=IF(A1>2,B1,A2)', '=MAX(A1:C2)', '=A1>B1', '=B2', '=SUM(A1:A3)*2', "='{o}'!A1+1", "=SUM('{o}'!A1:B2)",
            '={p}+1', '={p}*{p}', '=C9', '=COUNT(A1:C3)', '=1/0', '=IFERROR(1/0,7)', '=IFERROR({p}/0,{p})', '={p}/0']


def wb_model(wb):
    sheets = [{'title': t, 'cells': {}} for t in wb['titles']]
    for k, v in wb['cells'].items():
        si, c, r = (int(x) for x in k.split(':'))
        sheets[si]['cells'][wbk.a1(c, r)] = v
    return {'sheets': sheets}


def used_range(wb, overrides, si):
    ks = [k for k in list(wb['cells']) + [o[0] for o in overrides] if k.startswith(f'{si}:')]
    return max([int(k.split(':')[1]) for k in ks] or [0]), max([int(k.split(':')[2]) for k in ks] or [0])


def mk(wb, k, addr, value=None):
    si, c, r = (int(x) for x in k.split(':'))
    t = wb['titles'][si]
    return {'a1': lambda: wbk.Cell(t, L(c), str(r), value), 'num': lambda: wbk.Cell(si, c - 1, r - 1, value),
            'idx-a1': lambda: wbk.Cell(si, L(c), str(r), value), 'title-num': lambda: wbk.Cell(t, c - 1, r - 1, value),
            'mixed': lambda: wbk.Cell(t, c - 1, str(r), value), 'mixed2': lambda: wbk.Cell(si, L(c), r - 1, value)}[addr]()


def same(a, b):
    if a[0] != b[0]:
        return False
    if a[0] == 'value':
        x, y = a[1], b[1]
        if wbk.is_blank(x) or wbk.is_blank(y):
            return wbk.is_blank(x) and wbk.is_blank(y)
        return type(x) is type(y) and x == y
    return a[1] == b[1]


def reference_table(wb, overrides):
    """Independent values for the simple formulas (None where the reference does not apply)."""
    ov = {k: v for k, v in overrides}
    cells = wb['cells']

    def cell_value(si, c, r, depth=0):
        k = f'{si}:{c}:{r}'
        if k in ov:
            return ov[k]
        v = cells.get(k)
        if v is None:
            return F.BLANK
        if isinstance(v, str) and v.startswith('='):
            if depth > 20:
                raise F.OutOfDomain('depth')
            return ev(si, v, depth + 1)
        return v

    def ev(si, text, depth):
        import re
        m = re.fullmatch(r"=(?:'?(\w+)'?!)?([A-Z])(\d+)\+(?:'?(\w+)'?!)?([A-Z])(\d+)", text)
        if m:
            a = cell_value(wb['titles'].index(m.group(1)) if m.group(1) else si, ord(m.group(2)) - 64, int(m.group(3)), depth)
            b = cell_value(wb['titles'].index(m.group(4)) if m.group(4) else si, ord(m.group(5)) - 64, int(m.group(6)), depth)
            return F.to_num(a) + F.to_num(b)
        m = re.fullmatch(r"=(?:'?(\w+)'?!)?([A-Z])(\d+)\+1", text)
        if m:
            return F.to_num(cell_value(wb['titles'].index(m.group(1)) if m.group(1) else si, ord(m.group(2)) - 64, int(m.group(3)), depth)) + 1
        m = re.fullmatch(r"=SUM\((?:'?(\w+)'?!)?([A-Z])(\d+):([A-Z])(\d+)\)", text)
        if m:
            s2 = wb['titles'].index(m.group(1)) if m.group(1) else si
            tot = 0
            for r in range(int(m.group(3)), int(m.group(5)) + 1):
                for c in range(ord(m.group(2)) - 64, ord(m.group(4)) - 64 + 1):
                    v = cell_value(s2, c, r, depth)
                    if isinstance(v, (int, float)) and not isinstance(v, bool):
                        tot += v
            return tot
        raise F.OutOfDomain('no reference for this formula shape')
    table = {}
    for k, v in cells.items():
        si, c, r = (int(x) for x in k.split(':'))
        try:
            table[k] = cell_value(si, c, r)
        except (F.OutOfDomain, ValueError):
            table[k] = None
    return table


def replay(history, counter=None):
    wb, overrides = history['wb'], history.get('overrides', [])
    o = wbk.translate_model(wb_model(wb))
    if o[0] != 'value':
        if o[0] == 'timeout':
            return []
        raise env.HarnessError(f'C08 workbook does not translate: {o}')
    tr = o[1]
    fails = []

    def fail(rel, bucket, exp, act, step=None):
        fails.append({'case': history, 'expected': exp, 'actual': act, 'relation': rel, 'bucket': bucket, 'extra': {'step': step}})
    ov_cells = [mk(wb, k, 'a1' if i % 2 else 'num', wbk.dec(v)) for i, (k, v) in enumerate(overrides)]
    ex = tr.executor()
    if ov_cells:
        o_set = wbk.outcome(lambda: ex.set_cells(ov_cells))
        if o_set[0] not in ('value', 'timeout'):
            fail('overrides-are-accepted-under-every-addressing', 'set_cells:raises:' + o_set[1], 'set_cells succeeds', wbk.show_outcome(o_set))
            return fails
    keys = set(wb['cells']) | {k for k, _ in overrides}
    for si in range(len(wb['titles'])):
        mc, mr = used_range(wb, overrides, si)
        for c in range(1, mc + 1):
            for r in range(1, mr + 1):
                keys.add(f'{si}:{c}:{r}')
    # the model: one fresh executor per cell
    table = {}
    for k in sorted(keys):
        def one(k=k):
            e1 = tr.executor()
            if overrides:
                e1.set_cells([mk(wb, kk, 'num', wbk.dec(v)) for kk, v in overrides])
            return e1.get_cell(mk(wb, k, 'num')).value
        table[k] = wbk.outcome(one)
    ref = reference_table(wb, overrides)
    for k, rv in ref.items():
        if rv is None or k in {kk for kk, _ in overrides}:
            continue
        t = table[k]
        ok = t[0] == 'value' and F.same_value(rv, t[1])[0]
        if not ok and t[0] != 'timeout':
            fail('table-matches-reference', 'reference', F.show_ref(rv), wbk.show_outcome(t), k)
            return fails
    sizes_before = copy.deepcopy(ex.get_executed_class().get_sheets_size())
    exp_sizes = [{'last_column': used_range(wb, overrides, si)[0], 'last_row': used_range(wb, overrides, si)[1]} for si in range(len(wb['titles']))]
    if sizes_before != exp_sizes:
        fail('sizes-are-used-range-extended-by-overrides', 'sizes-initial', exp_sizes, sizes_before)
        return fails
    ex2 = None
    reusable = list(ov_cells)

    def check(k, got, step, api):
        if counter is not None:
            counter.append(1)
        want = table.get(k)
        if want is None:
            def one():
                e1 = tr.executor()
                if overrides:
                    e1.set_cells([mk(wb, kk, 'num', wbk.dec(v)) for kk, v in overrides])
                return e1.get_cell(mk(wb, k, 'num')).value
            want = table[k] = wbk.outcome(one)
        if got[0] == 'timeout' or want[0] == 'timeout':
            return True
        if not same(got, want):
            fail('query-equals-value-table', f'{api}:' + (got[1] if got[0] != 'value' else 'value'), wbk.show_outcome(want), wbk.show_outcome(got), step)
            return False
        return True
    for n, st in enumerate(history['steps']):
        op = st['op']
        if op == 'get_cell':
            if st.get('reuse') is not None and reusable:
                cell = reusable[st['reuse'] % len(reusable)]
                # a re-used Cell object addresses the cell it was created for
                k = None
                for kk in keys:
                    si, c, r = (int(x) for x in kk.split(':'))
                    if cell.has_handled_identifiers() and (cell.title, cell.column, cell.row) == (si, c - 1, r - 1):
                        k = kk
                if k is None:
                    continue
            else:
                k = st['k']
                cell = mk(wb, k, st['addr'])
                reusable.append(cell)
            got = wbk.outcome(lambda: ex.get_cell(cell).value)
            if not check(k, got, n, 'get_cell'):
                return fails
        elif op == 'hammer':
            k = st['k']
            for i in range(st['n']):
                got = wbk.outcome(lambda: ex.get_cell(mk(wb, k, 'num')).value)
                if not check(k, got, n, 'hammer'):
                    return fails
        elif op == 'get_cells':
            cells = [mk(wb, k, a) for k, a in st['ks']]
            got = wbk.outcome(lambda: [c.value for c in ex.get_cells(cells)])
            if got[0] != 'value':
                # some cell raises: compare one by one instead
                for (k, a) in st['ks']:
                    g1 = wbk.outcome(lambda: ex.get_cells([mk(wb, k, a)])[0].value)
                    if not check(k, g1, n, 'get_cells'):
                        return fails
            else:
                for (k, a), v in zip(st['ks'], got[1]):
                    if not check(k, ('value', v), n, 'get_cells'):
                        return fails
        elif op == 'get_sheet':
            si = st['si'] % len(wb['titles'])
            arg = si if st['by'] == 'index' else wb['titles'][si]
            got = wbk.outcome(lambda: [[c.value for c in row] for row in ex.get_sheet(arg)])
            mc, mr = used_range(wb, overrides, si)
            if got[0] != 'value':
                # legitimate when some cell of the sheet raises on evaluation
                for k in sorted(keys):
                    if k.startswith(f'{si}:') and k not in table:
                        check(k, ('timeout',), n, 'get_sheet')     # fills the table entry, judges nothing
                raising = [k for k in keys if k.startswith(f'{si}:') and table[k][0] != 'value']
                if not raising and got[0] != 'timeout':
                    fail('get_sheet-evaluates', 'get_sheet:raises:' + got[1], 'a grid', wbk.show_outcome(got), n)
                    return fails
                continue
            grid = got[1]
            if len(grid) != mr or any(len(row) != mc for row in grid):
                fail('get_sheet-shape-is-used-range', 'get_sheet:shape', [mr, mc], [len(grid), sorted({len(r) for r in grid})], n)
                return fails
            for r in range(mr):
                for c in range(mc):
                    if not check(f'{si}:{c + 1}:{r + 1}', ('value', grid[r][c]), n, 'get_sheet'):
                        return fails
        elif op == 'set':
            # the overrides are replaced in the middle of the history: what was queried before must not show in what is reported for
            # the overrides that hold now (the value table is computed anew, by fresh executors that only ever see the final overrides)
            cells, new = [], []
            for (k, v, reuse) in st['batch']:
                cell = None
                if reuse is not None and reusable:
                    cand = reusable[reuse % len(reusable)]
                    if cand.has_handled_identifiers() and isinstance(cand.title, int) and isinstance(cand.column, int) and isinstance(cand.row, int):
                        # read - modify - write with the very object a query returned
                        k = f'{cand.title}:{cand.column + 1}:{cand.row + 1}'
                        cand.value = wbk.dec(v)
                        cell = cand
                if cell is None:
                    cell = mk(wb, k, 'a1' if len(cells) % 2 else 'num', wbk.dec(v))
                cells.append(cell)
                new.append([k, v])
            o_set = wbk.outcome(lambda: ex.set_cells(cells))
            if o_set[0] == 'timeout':
                return fails
            if o_set[0] != 'value':
                fail('overrides-are-accepted-under-every-addressing', 'set_cells:raises:' + o_set[1], 'set_cells succeeds', wbk.show_outcome(o_set), n)
                return fails
            merged = {k: v for k, v in list(overrides) + new}
            overrides = [[k, v] for k, v in merged.items()]
            table.clear()
            keys |= set(merged)
            for si in range(len(wb['titles'])):
                mc, mr = used_range(wb, overrides, si)
                for c in range(1, mc + 1):
                    for r in range(1, mr + 1):
                        keys.add(f'{si}:{c}:{r}')
            exp_sizes = [{'last_column': used_range(wb, overrides, si)[0], 'last_row': used_range(wb, overrides, si)[1]} for si in range(len(wb['titles']))]
            sizes_before = copy.deepcopy(ex.get_executed_class().get_sheets_size())
            if sizes_before != exp_sizes:
                fail('sizes-are-used-range-extended-by-overrides', 'sizes-after-set', exp_sizes, sizes_before, n)
                return fails
        elif op == 'second':
            if ex2 is None:
                ex2 = tr.executor()     # same class object, no overrides
                table2 = {}
            k = st['k']
            # the expectation comes from another class object (a second translation of the same workbook) on which no
            # executor was ever given an override: state shared through the class cannot reach it
            if 'plain' not in table2:
                o2 = wbk.translate_model(wb_model(wb))
                if o2[0] != 'value':
                    raise env.HarnessError(f'C08 workbook does not translate the second time: {o2}')
                table2['plain'] = o2[1]
            e1 = table2['plain'].executor()
            want = wbk.outcome(lambda: e1.get_cell(mk(wb, k, 'num')).value)
            got = wbk.outcome(lambda: ex2.get_cell(mk(wb, k, st['addr'])).value)
            if counter is not None:
                counter.append(1)
            if got[0] != 'timeout' and want[0] != 'timeout' and not same(got, want):
                fail('second-executor-unaffected', 'second-executor', wbk.show_outcome(want), wbk.show_outcome(got), n)
                return fails
        sizes_now = ex.get_executed_class().get_sheets_size()
        if sizes_now != sizes_before:
            fail('queries-do-not-change-sizes', 'sizes-changed', sizes_before, copy.deepcopy(sizes_now), n)
            return fails
    return fails


def features(history):
    f = set()
    steps = history['steps']
    apis = {s['op'] for s in steps}
    addrs = {s.get('addr') for s in steps if s.get('addr')} | {a for s in steps if s['op'] == 'get_cells' for _, a in s['ks']}
    f |= {'api:' + a for a in apis}
    f |= {'addr:' + a for a in addrs}
    if history.get('overrides'):
        f.add('with-overrides')
    if any(s['op'] == 'set' for s in steps):
        f.add('overrides-replaced-mid-history')
    seen = {}
    for n, s in enumerate(steps):
        ks = [s['k']] if s['op'] in ('get_cell', 'second') and 'k' in s else [k for k, _ in s.get('ks', [])]
        for k in ks:
            if k in seen and n - seen[k] >= 2:
                f.add('requeried-with-gap')
            seen.setdefault(k, n)
    if any(s.get('reuse') is not None for s in steps):
        f.add('reused-cell-object')
    if len(history['wb']['titles']) > 1:
        f.add('multi-sheet')
    return f


def is_nontrivial(history):
    f = features(history)
    steps = history['steps']
    apis = {s['op'] for s in steps}
    addrs = {x for x in f if x.startswith('addr:')}
    return len(steps) >= 6 and len(apis) >= 2 and len(addrs) >= 2 and ('requeried-with-gap' in f or 'api:get_sheet' in f and 'api:get_cell' in f)


def run_case(history):
    return replay(history)


def build_machine(rec):
    from hypothesis import strategies as st
    from hypothesis.stateful import RuleBasedStateMachine, rule, initialize, precondition
    addr = st.sampled_from(['a1', 'num', 'idx-a1', 'title-num', 'mixed', 'mixed2'])
    value = st.one_of(st.integers(-9, 30), st.sampled_from([2.5, 'txt', True, 0, 1, False, 1.0, 1, 0, True]))

    class M(RuleBasedStateMachine):
        def __init__(self):
            super().__init__()
            self.h = None

        @initialize(data=st.data())
        def init(self, data):
            n = data.draw(st.integers(1, 3))
            # digit-only titles that differ from the sheet's own index: a title is a name, never a number
            titles = data.draw(st.sampled_from([['S', 'T', 'U'], ['S', 'T', 'U'], ['2', '0', '1'], ['1', '2', '3'], ['Data', '0', '10']]))[:n]
            cells = {}
            for si in range(n):
                for _ in range(data.draw(st.integers(2, 7))):
                    c, r = data.draw(st.integers(1, 3)), data.draw(st.integers(1, 3))
                    cells[f'{si}:{c}:{r}'] = data.draw(st.one_of(st.integers(1, 9), st.integers(1, 9), st.sampled_from([0.5, 'w', True, 0, False, 0.0])))
            if data.draw(st.integers(0, 3)) == 0:
                # a worksheet without any cell (used range 0 x 0): every query on it is defined - blank cells, an empty grid
                titles = titles + ['Empty']
            homes = []
            for i in range(data.draw(st.integers(2, 8))):
                si = data.draw(st.integers(0, n - 1))
                home = (si, data.draw(st.sampled_from([5, 6, 8, 27, 28, 53])), 1 + len([h for h in homes if h[0] == si]))
                f = data.draw(st.sampled_from(FORMULAS))
                other = titles[(si + 1) % n]
                prevs = [h for h in homes if h[0] == si]
                p = wbk.a1(prevs[-1][1], prevs[-1][2]) if prevs else 'A1'
                if '{o}' in f and n == 1:
                    f = '=A1+B1'
                cells[f'{home[0]}:{home[1]}:{home[2]}'] = f.replace('{o}', other).replace('{p}', p)
                homes.append(home)
            overrides = []
            if data.draw(st.booleans()):
                for _ in range(data.draw(st.integers(1, 4))):
                    k = data.draw(st.one_of(st.sampled_from(sorted(cells)), st.tuples(st.integers(0, n - 1), st.integers(1, 10), st.integers(1, 12)).map(lambda t: f'{t[0]}:{t[1]}:{t[2]}')))
                    if k not in [o[0] for o in overrides]:
                        overrides.append([k, data.draw(value)])
            self.h = {'wb': {'titles': titles, 'cells': cells}, 'overrides': overrides, 'steps': []}

        def _key(self, data):
            wb = self.h['wb']
            kind = data.draw(st.sampled_from(['cell', 'cell', 'cell', 'seen', 'blank', 'override']))
            seen = [s['k'] for s in self.h['steps'] if 'k' in s]
            if kind == 'seen' and seen:
                return data.draw(st.sampled_from(seen))
            if kind == 'override' and self.h['overrides']:
                return data.draw(st.sampled_from([o[0] for o in self.h['overrides']]))
            if kind == 'blank':
                return f'{data.draw(st.integers(0, len(wb["titles"]) - 1))}:{data.draw(st.integers(1, 9))}:{data.draw(st.integers(1, 9))}'
            return data.draw(st.sampled_from(sorted(wb['cells'])))

        @precondition(lambda self: self.h is not None)
        @rule(data=st.data(), a=addr, reuse=st.one_of(st.none(), st.none(), st.integers(0, 20)))
        def get_cell(self, data, a, reuse):
            self.h['steps'].append({'op': 'get_cell', 'k': self._key(data), 'addr': a, 'reuse': reuse})

        @precondition(lambda self: self.h is not None)
        @rule(data=st.data())
        def get_cells(self, data):
            n = data.draw(st.integers(1, 5))
            ks = []
            for _ in range(n):
                k = ks[-1][0] if ks and data.draw(st.integers(0, 3)) == 0 else self._key(data)
                ks.append([k, data.draw(addr)])
            self.h['steps'].append({'op': 'get_cells', 'ks': ks})

        @precondition(lambda self: self.h is not None)
        @rule(si=st.integers(0, 3), by=st.sampled_from(['index', 'title']))
        def get_sheet(self, si, by):
            self.h['steps'].append({'op': 'get_sheet', 'si': si, 'by': by})

        @precondition(lambda self: self.h is not None)
        @rule(data=st.data(), n=st.sampled_from([40, 120, 350]))
        def hammer(self, data, n):
            # the same cell many times in a row (a value must not wear out)
            self.h['steps'].append({'op': 'hammer', 'k': self._key(data), 'n': n})

        @precondition(lambda self: self.h is not None)
        @rule(data=st.data(), a=addr)
        def second(self, data, a):
            self.h['steps'].append({'op': 'second', 'k': self._key(data), 'addr': a})

        @precondition(lambda self: self.h is not None and self.h['steps'] and sum(1 for s_ in self.h['steps'] if s_['op'] == 'set') < 3)
        @rule(data=st.data())
        def set_again(self, data):
            wb = self.h['wb']
            now = {k: v for k, v in self.h['overrides']}
            for s_ in self.h['steps']:
                if s_['op'] == 'set':
                    now.update({k: v for k, v, _ in s_['batch']})
            batch = []
            for _ in range(data.draw(st.integers(1, 3))):
                kind = data.draw(st.sampled_from(['again', 'again', 'again', 'cell', 'cell', 'cell', 'beyond', 'any']))
                if kind == 'again' and now:
                    k = data.draw(st.sampled_from(sorted(now)))
                elif kind == 'beyond':
                    k = f'{data.draw(st.integers(0, len(wb["titles"]) - 1))}:{data.draw(st.integers(1, 12))}:{data.draw(st.integers(4, 14))}'
                else:
                    k = self._key(data)
                v = data.draw(st.one_of(value, value, value, st.none()))     # None: the cell is given without a value
                cur = now.get(k, wb['cells'].get(k))
                if isinstance(cur, (bool, int)) and cur in (0, 1) and data.draw(st.integers(0, 3)) > 0:
                    v = int(cur) if isinstance(cur, bool) else bool(cur)     # equal value, other type
                batch.append([k, v, data.draw(st.one_of(st.none(), st.none(), st.integers(0, 20)))])
                now[k] = v
            self.h['steps'].append({'op': 'set', 'batch': batch})

        def teardown(self):
            if self.h is None or not self.h['steps'] or rec.out_of_time():
                return
            h = json.loads(json.dumps(self.h))
            n = []
            fails = replay(h, n)
            rec.case(h, is_nontrivial(h), sorted(features(h)) + [f'steps:{min(len(h["steps"]) // 5 * 5, 30)}+'], n=max(1, len(n)),
                     sample={'workbook': h['wb'], 'overrides': h['overrides'], 'steps': h['steps'][:8]})
            for f in fails:
                rec.fail(**f)
    return M


NSHARD = 16


def plan(tier):
    n = 260 if tier == 'quick' else 3000
    return [{'kind': 'machine', 'shard': i, 'examples': n} for i in range(NSHARD)]


def run_shard(spec, rec):
    import hypothesis
    from hypothesis import settings, HealthCheck, Phase
    from hypothesis.stateful import run_state_machine_as_test
    M = hypothesis.seed(env.derive_seed('c08', spec['shard']))(build_machine(rec))
    run_state_machine_as_test(M, settings=settings(max_examples=spec['examples'], stateful_step_count=30, database=None, deadline=None,
                                                   phases=[Phase.generate], suppress_health_check=list(HealthCheck),
                                                   report_multiple_bugs=False))


def shrink_candidates(history):
    steps = history['steps']
    for i in range(len(steps)):
        yield {**history, 'steps': steps[:i] + steps[i + 1:]}
    ov = history.get('overrides', [])
    for i in range(len(ov)):
        yield {**history, 'overrides': ov[:i] + ov[i + 1:]}
    cells = history['wb']['cells']
    for k in list(cells):
        c2 = dict(cells)
        del c2[k]
        yield {**history, 'wb': {**history['wb'], 'cells': c2}}


MATCHERS = {}
