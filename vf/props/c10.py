"""C10 - comparisons are exact and lawful.

Domain: ordered pairs of operand values of one kind (numbers, texts incl. numeric-looking ones,
dates/date-times, blank) plus blank against every value, supplied as overrides (exhaustive grid),
as workbook constants and as literals (seeded sample), and in the thorough tier Hypothesis-drawn
pairs of arbitrary finite doubles / ints / short texts.
Oracle: exact rational comparison for numbers; the algebraic laws of the statement for every
same-kind pair (evaluated in both orders); the stated facts about blank and date = date-time at midnight.
"""
import datetime
import itertools
from fractions import Fraction

from .. import env
from .. import wbk
from ..run import hyp_run

ID = 'C10'
LEVEL = 'exploration'
BUDGET_S = {'quick': 300, 'thorough': 900}
RULE = ('ordered pairs (a,b) of one kind or with one blank, evaluated for all six operators in both orders '
        '(12 product evaluations per case) through =A1<op>B1 with overrides / workbook constants / literals; '
        'non-trivial = a and b are different values of the same kind, or exactly one is blank; numeric pairs are '
        'additionally tagged when they differ only in the fraction or in sign; distinct = distinct (a,b,via) JSON')
ASSUMPTIONS = ['text ordering is only checked against the laws, not against a specific collation',
               'mixed-kind pairs other than blank-vs-value are not asserted',
               'a blank cell against a number is judged as the number 0 (the statement: a blank cell equals 0)']

OPS = ['<', '<=', '=', '>=', '>', '<>']
BLANK = {'$blank': True}
D = datetime.date
DT = datetime.datetime


def numbers():
    out = list(range(-10, 11)) + [2 ** 31, -2 ** 31, 2 ** 31 - 1, 2 ** 53 - 1, -(2 ** 53 - 1), 10 ** 15, 123456789]
    # integers beyond the doubles' exact range (as literals and overrides they are numbers like any other): neighbours that
    # collapse to one double must still compare exactly
    out += [2 ** 53, 2 ** 53 + 1, 2 ** 53 + 2, -(2 ** 53) - 1, -(2 ** 53), 12345678901234567, 12345678901234568, 10 ** 17, 10 ** 17 + 1,
            2 ** 63, 2 ** 63 + 1, 10 ** 22, 10 ** 22 + 1]
    for k in (-2, -1, 0, 1, 2, 7):
        for j in range(1, 8):
            out.append(k + j / 8)
        for j in range(1, 10):
            out.append(float(f'{k}.{j}') if k >= 0 else -float(f'{-k}.{j}'))
    out += [0.1 + 0.2, 0.3, 1e-9, -1e-9, 1e300, -1e300, 5e-324, 0.5, -0.5, 1.5, 1.7, 2.5, 1e15 + 0.5, 99.99, 99.999,
            1 / 3, 2 / 3, 1e-300, 123456.789, -123456.789, 0.1, 0.7, 0.07]
    seen, res = set(), []
    for x in out:
        k = (Fraction(x), type(x).__name__)
        if k not in seen:
            seen.add(k)
            res.append(x)
    return res


TEXTS = ['', 'a', 'b', 'ab', 'abc', 'abd', 'B', 'Abc', 'ABC', 'z', 'é', 'apple', 'Apple', 'nan', 'NaN', 'inf',
         'Infinity', '-inf', '1e5', '1_0', ' 12', '１２', '12', '3', '120', '1.5', '1.7', '-1', '0', '00', '+5',
         '0x10', 'TRUE', 'true', 'None', '#N/A', '12abc', '2020-01-01', ' ', 'a b', 'A',
         # outside a criterion ? * ~ are ordinary characters of a text
         'Why?', 'why?', 'A*b', 'a*b', '~x', 'Ünï*', '*', 'a?']

DATES = [D(2020, 1, 1), D(2020, 1, 2), DT(2020, 1, 1), DT(2020, 1, 1, 12), DT(2020, 1, 1, 0, 0, 1), DT(2020, 1, 2),
         DT(1999, 12, 31, 23, 59, 59), D(1999, 12, 31), D(2024, 2, 29), DT(2024, 2, 29), DT(2024, 3, 1), D(2100, 3, 1),
         DT(2100, 2, 28, 23, 59), D(1904, 1, 1), DT(1900, 3, 1), D(9999, 12, 31)]


def kind(v):
    if v == BLANK:
        return 'blank'
    if isinstance(v, dict):
        return 'date'
    if isinstance(v, bool):
        return 'bool'
    if isinstance(v, (int, float)):
        return 'number'
    if isinstance(v, str):
        return 'text'
    raise ValueError(v)


def grid_pairs():
    nums = numbers()
    pairs = []
    for pool in (nums, TEXTS, [wbk.enc(d) for d in DATES]):
        pairs += [(a, b) for a in pool for b in pool]
    everything = nums + TEXTS + [wbk.enc(d) for d in DATES] + [False]
    pairs += [(BLANK, v) for v in everything] + [(v, BLANK) for v in everything] + [(BLANK, BLANK)]
    return pairs


# ---------------------------------------------------------------- oracle

def as_dt(v):
    v = wbk.dec(v)
    if isinstance(v, DT):
        return v
    return DT(v.year, v.month, v.day)


def numeric_looking(t):
    try:
        x = float(t)
    except ValueError:
        return False
    return x == x


def expected_table(a, b):
    """dict op -> bool for the operators whose result the statement fixes for (a,b); {} when only laws apply."""
    ka, kb = kind(a), kind(b)

    def table(c):  # c = -1,0,1
        return {'<': c < 0, '<=': c <= 0, '=': c == 0, '>=': c >= 0, '>': c > 0, '<>': c != 0}
    if ka == kb == 'number':
        fa, fb = Fraction(a), Fraction(b)
        return table((fa > fb) - (fa < fb))
    if ka == kb == 'date':
        da, db = as_dt(a), as_dt(b)
        return table((da > db) - (da < db))
    if ka == kb == 'blank':
        return table(0)
    if ka == kb == 'text' and a == b:
        # the laws decide this one: a<a exactly when a>a, and exactly one of < = > holds, so a text equals the text that is
        # spelt the same - wherever the two operands come from (a cell, an override, a literal)
        return table(0)
    if ka == 'blank' or kb == 'blank':
        v, kv = (b, kb) if ka == 'blank' else (a, ka)
        c = None
        if kv == 'number':
            c = (0 > v) - (0 < v)      # a blank cell equals 0: against a number it is the number 0
        elif kv == 'text':
            # numeric-looking texts are numbers to this library (pinned test test_compare_str_as_number),
            # so "blank < every non-empty text" is asserted for the other texts only; laws still apply
            c = 0 if v == '' else (None if numeric_looking(v) else -1)
        elif kv == 'bool':
            c = 0 if v is False else None
        elif kv == 'date':
            c = -1
        if c is None:
            return {}
        return table(c if ka == 'blank' else -c)
    return {}


def law_violations(ab, ba):
    """ab, ba: dict op -> product value for (a,b) and (b,a).  Returns list of (law, detail)."""
    bad = []
    for name, t in (('ab', ab), ('ba', ba)):
        for op, v in t.items():
            if type(v) is not bool:
                bad.append(('result-is-boolean', f'{name} {op} -> {v!r}'))
    if bad:
        return bad
    for name, t in (('ab', ab), ('ba', ba)):
        if [t['<'], t['='], t['>']].count(True) != 1:
            bad.append(('trichotomy', f'{name}: <:{t["<"]} =:{t["="]} >:{t[">"]}'))
        if t['<>'] != (not t['=']):
            bad.append(('ne-is-not-eq', f'{name}: =:{t["="]} <>:{t["<>"]}'))
        if t['<='] != (not t['>']):
            bad.append(('le-is-not-gt', f'{name}: <=:{t["<="]} >:{t[">"]}'))
        if t['>='] != (not t['<']):
            bad.append(('ge-is-not-lt', f'{name}: >=:{t[">="]} <:{t["<"]}'))
    if ab['<'] != ba['>'] or ab['>'] != ba['<']:
        bad.append(('converse', f'a<b:{ab["<"]} b>a:{ba[">"]} a>b:{ab[">"]} b<a:{ba["<"]}'))
    return bad


def nontrivial(a, b):
    ka, kb = kind(a), kind(b)
    if (ka == 'blank') != (kb == 'blank'):
        return True
    return ka == kb and a != b


def tags(a, b):
    ka, kb = kind(a), kind(b)
    t = [f'kind:{ka}' if ka == kb else 'kind:blank-vs-' + (kb if ka == 'blank' else ka)]
    if ka == kb == 'number' and a != b:
        fa, fb = Fraction(a), Fraction(b)
        if int(fa) == int(fb):
            t.append('num:same-int-part-different-fraction')
        if (fa < 0) != (fb < 0):
            t.append('num:different-sign')
    return t


# ---------------------------------------------------------------- product side

def lit(v):
    """Formula literal for a value, or None when it has no literal spelling in the grammar."""
    if isinstance(v, bool):
        return 'TRUE' if v else 'FALSE'
    if isinstance(v, int):
        return str(v) if v >= 0 else f'(-{-v})'
    if isinstance(v, float):
        if v != v or v in (float('inf'), float('-inf')):
            return None
        s = format(abs(v), '.17f').rstrip('0')
        if float(s) != abs(v) or len(s) > 40:
            return None
        if s.endswith('.'):
            s += '0'
        return s if v >= 0 else f'(-{s})'
    if isinstance(v, str):
        if any(ch in v for ch in '"\\\'\n'):
            return None
        return f'"{v}"'
    return None


_TR = {}


def override_tr(content=False):
    """One translated workbook: A1,B1 blank (or, content=True, holding 5 and the text zz); C1..H1 = A1<op>B1; I1..N1 = B1<op>A1."""
    key = 'oc' if content else 'o'
    if key not in _TR:
        cells = {'A1': 5, 'B1': 'zz'} if content else {}
        for i, op in enumerate(OPS):
            cells[wbk.a1(3 + i, 1)] = f'=A1{op}B1'
            cells[wbk.a1(9 + i, 1)] = f'=B1{op}A1'
        o = wbk.translate_model({'sheets': [{'title': 'S', 'cells': cells}]})
        if o[0] != 'value':
            raise env.HarnessError(f'C10 base workbook does not translate: {o}')
        _TR[key] = o[1]
    return _TR[key]


def eval_override(a, b, content=False):
    # content=True: the operands replace cells that hold something else in the workbook (a zero, an empty text or FALSE that is
    # set must win over what the workbook holds, like every other value)
    tr = override_tr(content)
    ex = tr.executor()
    cells = []
    if a != BLANK:
        cells.append(wbk.Cell('S', 'A', '1', wbk.dec(a)))
    if b != BLANK:
        cells.append(wbk.Cell('S', 'B', '1', wbk.dec(b)))
    if cells:
        o_set = wbk.outcome(lambda: ex.set_cells(cells))
        if o_set[0] != 'value':
            return {op: o_set for op in OPS}, {op: o_set for op in OPS}
    ab, ba = {}, {}
    for i, op in enumerate(OPS):
        ab[op] = tr.get('S', wbk.get_column_letter(3 + i), '1', ex)
        ba[op] = tr.get('S', wbk.get_column_letter(9 + i), '1', ex)
    return ab, ba


def eval_batch_cells(pairs, via):
    """pairs as workbook constants (via='cell') or literals (via='literal'), one workbook for all pairs."""
    cells = {}
    formulas = []
    for r, (a, b) in enumerate(pairs, 1):
        if via == 'cell':
            if a != BLANK:
                cells[f'A{r}'] = a
            if b != BLANK:
                cells[f'B{r}'] = b
            la, lb = f'A{r}', f'B{r}'
        elif via == 'mixed':
            # one operand is held by a cell, the other one is written into the formula
            if a != BLANK:
                cells[f'A{r}'] = a
            la, lb = f'A{r}', lit(b)
        else:
            la, lb = lit(a), lit(b)
        for op in OPS:
            formulas.append(f'={la}{op}{lb}')
        for op in OPS:
            formulas.append(f'={lb}{op}{la}')
    res = wbk.eval_formulas([{'title': 'S', 'cells': cells}], formulas, first_col=3, ncols=12)
    out = []
    for r in range(len(pairs)):
        chunk = res[r * 12:(r + 1) * 12]
        out.append((dict(zip(OPS, chunk[:6])), dict(zip(OPS, chunk[6:]))))
    return out


def judge(a, b, via, ab_o, ba_o):
    """-> list of failure dicts for one evaluated pair."""
    case = {'a': a, 'b': b, 'via': via}
    fails = []
    bad_o = [(n, op, o) for n, t in (('a?b', ab_o), ('b?a', ba_o)) for op, o in t.items() if o[0] != 'value']
    if bad_o:
        n, op, o = bad_o[0]
        if o[0] == 'timeout':
            return []
        fails.append({'case': case, 'expected': 'a boolean', 'actual': wbk.show_outcome(o),
                      'relation': 'comparison-evaluates', 'bucket': f'raises:{kind(a)}-{kind(b)}:{o[1]}',
                      'extra': {'operator': op, 'order': n}})
        return fails
    ab = {op: o[1] for op, o in ab_o.items()}
    ba = {op: o[1] for op, o in ba_o.items()}
    ka, kb = kind(a), kind(b)
    exp = expected_table(a, b)
    if exp:
        wrong = {op: ab[op] for op in OPS if not (type(ab[op]) is bool and ab[op] == exp[op])}
        if wrong:
            fails.append({'case': case, 'expected': exp, 'actual': {op: wbk.show(v) for op, v in ab.items()},
                          'relation': 'exact-comparison', 'bucket': f'exact:{ka}-{kb}',
                          'extra': {'wrong_ops': sorted(wrong)}})
            return fails
    if ka == kb or exp:
        lv = law_violations(ab, ba)
        if lv:
            fails.append({'case': case, 'expected': 'laws of the statement', 'actual': {'a?b': {op: wbk.show(v) for op, v in ab.items()},
                                                                                         'b?a': {op: wbk.show(v) for op, v in ba.items()}},
                          'relation': 'law:' + lv[0][0], 'bucket': f'law:{lv[0][0]}:{ka}-{kb}', 'extra': {'laws': lv}})
    return fails


def run_case(case):
    a, b, via = case['a'], case['b'], case.get('via', 'override')
    if via == 'cell':  # a workbook cannot hold an empty text: it is a blank cell
        a, b = (BLANK if a == '' else a), (BLANK if b == '' else b)
    if via in ('override', 'override-content'):
        ab, ba = eval_override(a, b, via == 'override-content')
    else:
        (ab, ba), = eval_batch_cells([(a, b)], via)
    return judge(a, b, via, ab, ba)


# ---------------------------------------------------------------- plan / shards

NSHARD = 16


def plan(tier):
    specs = [{'kind': 'grid', 'shard': i} for i in range(NSHARD)]
    specs += [{'kind': 'cells', 'shard': NSHARD + i, 'via': via, 'part': i % 4}
              for i, via in enumerate(['cell'] * 4 + ['literal'] * 4 + ['mixed'] * 4)]
    if tier == 'thorough':
        specs += [{'kind': 'hyp', 'shard': 100 + i, 'examples': 40000} for i in range(16)]
    else:
        specs += [{'kind': 'hyp', 'shard': 100 + i, 'examples': 2500} for i in range(16)]
    return specs


def run_shard(spec, rec):
    if spec['kind'] == 'grid':
        pairs = grid_pairs()
        mine = pairs[spec['shard']::NSHARD]
        rec.exhaustive = True
        for a, b in mine:
            if rec.out_of_time():
                rec.exhaustive = False
                break
            via_ = 'override-content' if BLANK not in (a, b) and (len(repr(a)) + len(repr(b))) % 2 else 'override'
            ab, ba = eval_override(a, b, via_ == 'override-content')
            rec.case({'a': a, 'b': b, 'via': via_}, nontrivial(a, b), tags(a, b) + ['via:' + via_], n=12)
            for f in judge(a, b, via_, ab, ba):
                rec.fail(**f)
    elif spec['kind'] == 'cells':
        import random
        via = spec['via']
        pairs = grid_pairs()
        if via == 'mixed':
            def stored(v):
                return not (isinstance(v, str) and v == '') and not (isinstance(v, dict) and '$d' in v) and \
                    not (isinstance(v, float) and (v == int(v) or abs(v) < 1e-300 or float('%.16g' % v) != v)) and \
                    not (isinstance(v, int) and not isinstance(v, bool) and abs(v) > 2 ** 53)
            pairs = [(a, b) for a, b in pairs if lit(b) is not None and kind(b) != 'blank' and stored(a)]
        elif via == 'literal':
            pairs = [(a, b) for a, b in pairs if lit(a) is not None and lit(b) is not None and kind(a) != 'blank' and kind(b) != 'blank']
        else:
            # a workbook stores a date as a date-time, integral floats as ints, '' as blank, numbers with 16 significant digits: keep what
            # survives storage (1000000000000000.5 is written as 1000000000000000)
            pairs = [(a, b) for a, b in pairs if all(not (isinstance(v, str) and v == '') and not (isinstance(v, dict) and '$d' in v)
                                                     and not (isinstance(v, float) and (v == int(v) or abs(v) < 1e-300 or float('%.16g' % v) != v))
                                                     and not (isinstance(v, int) and not isinstance(v, bool) and abs(v) > 2 ** 53) for v in (a, b))]
        rnd = random.Random(env.derive_seed('c10', via))
        rnd.shuffle(pairs)
        n = 600 if rec.tier == 'quick' else 6000
        mine = pairs[:n][spec['part']::4]
        if via == 'mixed':
            # every text against the literal that spells the same text (and its neighbours in case)
            same = [(a, b) for a in TEXTS if a for b in TEXTS if b and a.lower() == b.lower() and lit(b) is not None]
            mine = same[spec['part']::4] + mine
        if via == 'cell':
            # neighbours on purpose: one workbook (one instance of the class) compares 0, FALSE and a blank cell with the same
            # partner one after the other - whatever an instance remembers between two comparisons must not matter
            partners = [t for t in TEXTS if t != ''] + [0, 1, -1, 0.5, wbk.enc(DATES[2])]
            together = []
            for t in partners[spec['part']::4]:
                together += [(0, t), (BLANK, t), (False, t), (t, BLANK), (t, 0)]
            mine = together + mine
        for i in range(0, len(mine), 60):
            if rec.out_of_time():
                break
            chunk = mine[i:i + 60]
            for (a, b), (ab, ba) in zip(chunk, eval_batch_cells(chunk, via)):
                rec.case({'a': a, 'b': b, 'via': via}, nontrivial(a, b), tags(a, b) + [f'via:{via}'], n=12)
                for f in judge(a, b, via, ab, ba):
                    rec.fail(**f)
    else:
        from hypothesis import strategies as st
        num = st.one_of(st.integers(-2 ** 53 + 1, 2 ** 53 - 1), st.floats(allow_nan=False, allow_infinity=False),
                        st.integers(-1000, 1000).map(lambda k: k / 8), st.integers(-10 ** 6, 10 ** 6).map(lambda k: k / 1000))
        near = st.tuples(st.integers(-50, 50), st.integers(0, 999), st.integers(0, 999)).map(
            lambda t: (float(f'{t[0]}.{t[1]:03d}'), float(f'{t[0]}.{t[2]:03d}')))
        txt = st.text(alphabet='abAB1. -eé_', max_size=5)
        bigint = st.integers(2 ** 53, 2 ** 70)
        bigpair = st.tuples(bigint, st.integers(-2, 2), st.booleans()).map(lambda t: ((t[0], t[0] + t[1]) if not t[2] else (-t[0], -t[0] + t[1])))
        pair = st.one_of(st.tuples(num, num), near, bigpair, st.tuples(txt, txt),
                         st.tuples(st.just(BLANK), st.one_of(num, txt)), st.tuples(st.one_of(num, txt), st.just(BLANK)))

        def body(p):
            a, b = p
            a = 0.0 if isinstance(a, float) and a == 0 else a
            b = 0.0 if isinstance(b, float) and b == 0 else b
            via_ = 'override-content' if BLANK not in (a, b) and (len(repr(a)) + len(repr(b))) % 2 else 'override'
            ab, ba = eval_override(a, b, via_ == 'override-content')
            rec.case({'a': a, 'b': b, 'via': via_}, nontrivial(a, b), tags(a, b) + ['via:' + via_ + '-drawn'], n=12)
            for f in judge(a, b, via_, ab, ba):
                rec.fail(**f)
        hyp_run(pair, body, spec['examples'], ('c10', spec['shard']), rec)


def shrink_candidates(case):
    from ..run import generic_shrinks
    for k in ('a', 'b'):
        if not isinstance(case[k], dict):
            for s in generic_shrinks(case[k]):
                yield {**case, k: s}


MATCHERS = {}
