"""C18 - the workbook is read at true coordinates, with true types and sizes.

Hypothesis: 1-5 sheets (some empty), sparse cell sets with gaps of empty rows/columns, first used cell not at A1, a cell far
from the origin (row <= 3000, column <= 400); values int / float / bool / text (printable + unicode) / date / date-time /
formulas / one ArrayFormula.  Written with openpyxl (normal mode), read by the product (streaming mode).
Oracle: the generator's cell map normalised by the xlsx storage rules and cross-checked against openpyxl's ordinary reader.
"""
import datetime
import os
import re

import openpyxl

from .. import env
from .. import wbk
from ..ref import formula as F
from ..run import hyp_run

ID = 'C18'
LEVEL = 'exploration'
BUDGET_S = {'quick': 300, 'thorough': 1500}
RULE = ('one workbook per case; every planted coordinate, its eight neighbours, the corners of the used range and a sample of blank '
        'coordinates are queried through Executor.get_cell (class object and file-loaded class); get_titles / get_sheets_size '
        'are compared with the model; a case = one queried coordinate or one size/title comparison; non-trivial = the sheet has an '
        'empty row and an empty column inside its used range and its first used cell is not A1, or the workbook has >= 3 sheets '
        'with one empty; distinct = distinct (workbook, coordinate)')
ASSUMPTIONS = ['values are those that survive openpyxl itself: dates >= 1900-03-01 with whole seconds, non-empty text without control characters',
               'an integral float is stored (and expected back) as int, a date as a date-time at midnight',
               'a disagreement between the model and openpyxl\'s non-streaming reader is a generator bug (exit 2), not a violation']


def normalise(v):
    v = wbk.dec(v)
    if isinstance(v, bool):
        return v
    if isinstance(v, float):
        # openpyxl writes numbers with 16 significant digits; a text without '.' or exponent is read back as an int
        t = '%.16g' % v
        if t.lstrip('-').isdigit():
            return int(t)
        return float(t)
    if isinstance(v, datetime.datetime):
        return v
    if isinstance(v, datetime.date):
        return datetime.datetime(v.year, v.month, v.day)
    return v


def same_typed(exp, got):
    if exp is None:
        return wbk.is_blank(got)
    if wbk.is_blank(got):
        return False
    return type(got) is type(exp) and got == exp


def formula_value(text):
    """Reference value of the tiny formulas planted by the generator."""
    toks_ast = text[1:]
    m = re.fullmatch(r'COLUMN\(([A-Z]+)[0-9]+:([A-Z]+)[0-9]+\)', toks_ast)
    if m:
        # the number of the first column of the area (the library lets the other numbers spill over the blank cells to the right)
        return wbk.column_index_from_string(m.group(1))
    a, op, b = toks_ast.partition('+') if '+' in toks_ast else toks_ast.partition('*')
    return int(a) + int(b) if op == '+' else int(a) * int(b)


def run_spec(spec, rec=None):
    model = {'sheets': []}
    expect = []   # per sheet: dict (c,r) -> expected python value
    spills = []   # per sheet: coordinates a COLUMN(area) formula may fill with numbers when they are blank
    for sh in spec['sheets']:
        cells = {}
        exp = {}
        for (c, r, v) in sh['cells']:
            addr = wbk.a1(c, r)
            cells[addr] = v
            if isinstance(v, str) and v.startswith('='):
                exp[(c, r)] = formula_value(v)
            elif isinstance(v, dict) and '$arr' in v:
                exp[(c, r)] = formula_value(v['$arr'][1])
            else:
                exp[(c, r)] = normalise(v)
        for k_, ct in enumerate(spec.get('charts') or []):
            if ct[0] == len(expect):
                # chart sheets among the worksheets: they have titles and tabs, no cells and no number
                model['sheets'].append({'title': ct[1], 'chart': True})
        model['sheets'].append({'title': sh['title'], 'cells': cells, **({'dimension': sh['dimension']} if sh.get('dimension') else {})})
        expect.append(exp)
        spill_of = set()
        for (c, r, v) in sh['cells']:
            text_ = v['$arr'][1] if isinstance(v, dict) and '$arr' in v else v
            m = re.fullmatch(r'=COLUMN\(([A-Z]+)[0-9]+:([A-Z]+)[0-9]+\)', text_) if isinstance(text_, str) else None
            if m:
                width = wbk.column_index_from_string(m.group(2)) - wbk.column_index_from_string(m.group(1)) + 1
                spill_of |= {(c + k, r) for k in range(1, width)}
        spills.append(spill_of)
    for ct in spec.get('charts') or []:
        if ct[0] >= len(expect):
            model['sheets'].append({'title': ct[1], 'chart': True})
    if (spec.get('charts') or []) and not any(e for e in expect[:1]):
        model['sheets'] = [m for m in model['sheets'] if not m.get('chart')]    # the chart needs two cells of the first sheet to point at
    path = wbk.write_xlsx(model)
    fails = []

    def fail(rel, bucket, expected, actual, extra=None):
        fails.append({'case': spec, 'expected': expected, 'actual': actual, 'relation': rel, 'bucket': bucket, 'extra': extra})
    try:
        # cross-check the model against openpyxl's ordinary reader (generator soundness)
        wb = openpyxl.load_workbook(path)
        for sh, exp in zip(spec['sheets'], expect):
            ws = wb[sh['title']]
            for (c, r), e in exp.items():
                got = ws.cell(row=r, column=c).value
                if isinstance(got, str) and got.startswith('='):
                    continue
                if hasattr(got, 'text'):
                    continue
                if not (type(got) is type(e) and got == e):
                    raise env.HarnessError(f'C18 generator/model disagreement at {sh["title"]}!{wbk.a1(c, r)}: model {e!r} openpyxl {got!r}')
        wb.close()
        o = wbk.outcome(lambda: wbk.translate_path(path))
        if o[0] != 'value':
            if o[0] != 'timeout':
                fail('translates', 'translate:raises:' + o[1], 'source text', wbk.show_outcome(o))
            return fails
        src = o[1]
        ol = wbk.outcome(lambda: (wbk.load_source(src), wbk.load_file(src)))
        if ol[0] != 'value':
            if ol[0] == 'timeout':
                if rec:
                    rec.count('source_too_large_inconclusive')
            else:
                fail('translation-loads', 'load:' + ol[1], 'a loadable class', wbk.show_outcome(ol))
            return fails
        cls_a, cls_b = ol[1]
        inst = cls_a()
        titles = inst.get_titles()
        exp_titles = {sh['title']: i for i, sh in enumerate(spec['sheets'])}
        sizes = inst.get_sheets_size()
        exp_sizes = [{'last_column': max([c for (c, _) in e] or [0]), 'last_row': max([r for (_, r) in e] or [0])} for e in expect]
        n_sheets = len(spec['sheets'])
        some_empty = any(not e for e in expect)
        if rec:
            rec.case({'spec': spec, 'q': 'titles'}, n_sheets >= 3 and some_empty, ['q:titles', f'sheets:{n_sheets}'],
                     sample={'titles': [s['title'] for s in spec['sheets']], 'expected_sizes': exp_sizes})
            rec.case({'spec': spec, 'q': 'sizes'}, n_sheets >= 3 and some_empty, ['q:sizes'] + (['has-empty-sheet'] if some_empty else []))
        if titles != exp_titles or list(titles) != list(exp_titles):
            fail('titles-in-workbook-order', 'titles', exp_titles, titles)
        if sizes != exp_sizes:
            fail('sizes-are-used-range', 'sizes', exp_sizes, sizes)
        ex_a = wbk.Executor().set_executed_class(class_object=cls_a)
        ex_b = wbk.Executor().set_executed_class(class_object=cls_b)
        for si, (sh, exp) in enumerate(zip(spec['sheets'], expect)):
            if not exp:
                continue
            maxc, maxr = exp_sizes[si]['last_column'], exp_sizes[si]['last_row']
            used_rows = {r for (_, r) in exp}
            used_cols = {c for (c, _) in exp}
            gap = (len(used_rows) < maxr - min(used_rows) + 1) and (len(used_cols) < maxc - min(used_cols) + 1)
            first_not_a1 = (1, 1) not in exp
            nt = gap and first_not_a1
            coords = set(exp)
            for (c, r) in list(exp):
                for dc in (-1, 0, 1):
                    for dr in (-1, 0, 1):
                        if 1 <= c + dc <= maxc + 1 and 1 <= r + dr <= maxr + 1:
                            coords.add((c + dc, r + dr))
            coords |= {(1, 1), (maxc, maxr), (1, maxr), (maxc, 1)}
            for k in range(spec.get('extra_probes', 6)):
                coords.add((1 + (k * 7919 + si) % maxc, 1 + (k * 104729 + 3 * si) % maxr))
            for (c, r) in sorted(coords):
                e = exp.get((c, r))
                if e is None and (c, r) in spills[si]:
                    continue
                addressing = (c * 31 + r) % 3
                if addressing == 0:
                    cell_a, cell_b = wbk.Cell(sh['title'], wbk.get_column_letter(c), str(r)), wbk.Cell(sh['title'], wbk.get_column_letter(c), str(r))
                elif addressing == 1:
                    cell_a, cell_b = wbk.Cell(si, c - 1, r - 1), wbk.Cell(si, c - 1, r - 1)
                else:
                    cell_a, cell_b = wbk.Cell(si, wbk.get_column_letter(c), str(r)), wbk.Cell(sh['title'], c - 1, r - 1)
                oa = wbk.outcome(lambda: ex_a.get_cell(cell_a).value)
                ob = wbk.outcome(lambda: ex_b.get_cell(cell_b).value)
                kind = 'blank' if e is None else type(e).__name__
                if rec:
                    rec.case({'spec': spec, 'q': [si, c, r]}, nt or (n_sheets >= 3 and some_empty),
                             ['q:cell', 'kind:' + kind] + (['far'] if c > 50 or r > 100 else []) + (['gap+not-a1'] if nt else []),
                             sample={'sheet': sh['title'], 'cell': wbk.a1(c, r), 'expected': wbk.show(e), 'used_range': [maxc, maxr]})
                if oa[0] == 'timeout':
                    continue
                if oa[0] != 'value' or not same_typed(e, oa[1]):
                    fail('value-and-type-at-coordinate', f'cell:{kind}' + (':raises:' + oa[1] if oa[0] != 'value' else ''),
                         wbk.show(e), wbk.show_outcome(oa), {'sheet': sh['title'], 'cell': wbk.a1(c, r)})
                elif ob[0] != 'value' or not same_typed(e, ob[1]):
                    fail('file-loaded-class-agrees', f'file-class:{kind}', wbk.show(e), wbk.show_outcome(ob), {'sheet': sh['title'], 'cell': wbk.a1(c, r)})
        # the class reports the titles and sizes of the workbook whenever it is asked - also after an executor on the same class object was
        # given a cell beyond the used range (that executor's own view grows, the workbook's does not)
        grow = wbk.outcome(lambda: ex_a.set_cells([wbk.Cell(0, exp_sizes[0]['last_column'] + 2, exp_sizes[0]['last_row'] + 3, 1)]))
        if grow[0] == 'value':
            again = wbk.outcome(lambda: (cls_a().get_sheets_size(), cls_a().get_titles(),
                                         wbk.Executor().set_executed_class(class_object=cls_a).get_executed_class().get_sheets_size()))
            if rec:
                rec.case({'spec': spec, 'q': 'sizes-again'}, True, ['q:sizes-after-another-executor-grew'])
            if again[0] == 'value' and (again[1][0] != exp_sizes or again[1][2] != exp_sizes or again[1][1] != exp_titles):
                fail('sizes-are-used-range', 'sizes:after-another-executor-grew', exp_sizes, [again[1][0], again[1][2]])
            elif again[0] not in ('value', 'timeout'):
                fail('sizes-are-used-range', 'sizes:after-another-executor-grew:raises:' + again[1], exp_sizes, wbk.show_outcome(again))
        # one Parser that was pointed at another workbook before (same title at another sheet index, another content at the coordinate)
        # and keeps its entry cell: the cell is read from the workbook that is set now, at its real sheet / column / row
        target = next(((si, c, r, e) for si, exp in enumerate(expect) for (c, r), e in sorted(exp.items())
                       if not (isinstance(spec['sheets'][si]['cells'] and dict(((cc, rr), vv) for cc, rr, vv in spec['sheets'][si]['cells'])[(c, r)], str)
                               and str(dict(((cc, rr), vv) for cc, rr, vv in spec['sheets'][si]['cells'])[(c, r)]).startswith('='))), None)
        if target is not None and spec.get('reuse_parser', True):
            si, c, r, e = target
            title = spec['sheets'][si]['title']
            decoy = {'sheets': [{'title': f'Decoy{k}', 'cells': {'A1': k}} for k in range(si + 1)] +
                     [{'title': title, 'cells': {wbk.a1(c, r): 'decoy', 'A1': 'decoy too'}}]}
            decoy_path = wbk.write_xlsx(decoy)
            try:
                def go():
                    prs = wbk.Parser().disable_safety_check().set_excel_file_path(decoy_path).set_entrypoint_cell(wbk.Cell(title, wbk.get_column_letter(c), str(r)))
                    prs.get_translation()
                    prs.set_excel_file_path(path)
                    cls = wbk.load_source(prs.get_translation())
                    return wbk.Executor().set_executed_class(class_object=cls).get_cell(wbk.Cell(title, wbk.get_column_letter(c), str(r))).value
                og = wbk.outcome(go)
                if rec:
                    rec.case({'spec': spec, 'q': 'reused-parser'}, True, ['q:entry-cell-after-path-change'],
                             sample={'sheet': title, 'cell': wbk.a1(c, r), 'expected': wbk.show(e)})
                if og[0] != 'timeout' and (og[0] != 'value' or not same_typed(e, og[1])):
                    fail('value-and-type-at-coordinate', 'reused-parser:entry-cell' + (':raises:' + og[1] if og[0] != 'value' else ''), wbk.show(e), wbk.show_outcome(og),
                         {'sheet': title, 'cell': wbk.a1(c, r), 'history': 'Parser: decoy workbook + entry cell, translate, set_excel_file_path(this workbook), translate'})
            finally:
                try:
                    os.unlink(decoy_path)
                except OSError:
                    pass
        return fails
    finally:
        try:
            os.unlink(path)
        except OSError:
            pass


def run_case(spec):
    return run_spec(spec)


def strategy():
    from hypothesis import strategies as st
    titles = st.sampled_from(['Sheet1', 'Data', 'Лист', 'My Sheet', 'a-b', 'X', 'Summary 2024', 'Z9', 'q.r', 'T', "it's", 'a!b', '数据', '2023', '1', '0', '10',
                               # characters beyond the basic plane (emoji, mathematical letters)
                               '\U0001F4CA data', '\U0001D538\U0001D539', 'a\U0001F600b'])
    text = st.one_of(st.text(alphabet=st.characters(min_codepoint=32, max_codepoint=0x2fff, blacklist_categories=('Cs', 'Cc', 'Cn'),
                                                      blacklist_characters='￾￿'), min_size=1, max_size=12),
                     st.sampled_from(['abc', ' lead', 'trail ', 'TRUE', '12', '1e5', "it's", 'a"b', 'line1\nline2', 'tab\there', '#N/A', '\\n', '{x}', '%s', '0', '-', "'",
                                      # a text is a text although an equals sign follows its leading blanks
                                      ' =1+2', '\n=D8', '  = total', ' ==', '\t=A1', ' =SUM(A1:A2)']))
    text = text.filter(lambda s: not s.startswith('=') and s.strip() != '' or s in (' lead', 'trail '))
    dt = st.datetimes(min_value=datetime.datetime(1900, 3, 1), max_value=datetime.datetime(9999, 12, 31)).map(
        lambda d: {'$dt': d.replace(microsecond=0).isoformat()})
    d = st.dates(min_value=datetime.date(1900, 3, 1), max_value=datetime.date(9999, 12, 31)).map(lambda x: {'$d': x.isoformat()})
    value = st.one_of(st.integers(-2 ** 53 + 1, 2 ** 53 - 1), st.integers(-100, 100), st.floats(allow_nan=False, allow_infinity=False, width=64).map(lambda x: float('%.16g' % x)).filter(lambda x: abs(x) < 1e308),
                      st.sampled_from([0.5, -0.0, 2.0, 1e300, 1e-300, 0.1, 123456789.125, 0.3333333333333333, 3.141592653589793, 434.9999999999999, 0.5208333333333334]), st.booleans(), text, text, dt, d,
                      st.tuples(st.integers(0, 99), st.sampled_from(['+', '*']), st.integers(0, 99)).map(lambda t: f'={t[0]}{t[1]}{t[2]}'),
                      # the area lies below every generated cell (rows <= 3000), so the formula is never part of its own argument
                      st.tuples(st.integers(1, 30), st.integers(1, 4), st.integers(1, 9)).map(
                          lambda t: f'=COLUMN({wbk.get_column_letter(t[0])}{9000 + t[2]}:{wbk.get_column_letter(t[0] + t[1])}{9001 + t[2]})'))

    @st.composite
    def spec(draw):
        n = draw(st.integers(1, 5))
        ts = draw(st.lists(titles, min_size=n, max_size=n, unique_by=lambda t: t.lower()))
        sheets = []
        arr_used = False
        for t in ts:
            k = draw(st.sampled_from([0, 0, 1, 3, 6, 12, 25]))
            layout = draw(st.sampled_from(['origin', 'offset', 'offset', 'sparse', 'far']))
            cells = {}
            for _ in range(k):
                if layout == 'origin':
                    c, r = draw(st.integers(1, 5)), draw(st.integers(1, 6))
                elif layout == 'offset':
                    c, r = draw(st.integers(3, 9)), draw(st.integers(4, 12))
                elif layout == 'sparse':
                    c, r = draw(st.sampled_from([2, 5, 6, 11, 17])), draw(st.sampled_from([3, 4, 9, 20, 31]))
                else:
                    c, r = draw(st.sampled_from([2, 4, 30, 399, 400])), draw(st.sampled_from([2, 7, 150, 2999, 3000]))
                v = draw(value)
                if not arr_used and isinstance(v, str) and v.startswith('=') and draw(st.booleans()):
                    v = {'$arr': [f'{wbk.a1(c, r)}:{wbk.a1(c, r)}', v]}
                    arr_used = True
                cells[(c, r)] = v
            sh_ = {'title': t, 'cells': [[c, r, v] for (c, r), v in sorted(cells.items())]}
            if cells and draw(st.integers(0, 3)) == 0:
                sh_['dimension'] = draw(st.sampled_from(['A1:A1', 'A1:B2', 'B2:C3', 'A1:A2']))   # written into the file instead of the true extent
            sheets.append(sh_)
        charts = []
        if draw(st.integers(0, 3)) == 0:
            for ct in draw(st.lists(st.sampled_from(['Chart1', 'Diagramm 2', 'Z']), min_size=1, max_size=2, unique=True)):
                if ct.lower() not in {t.lower() for t in ts}:
                    charts.append([draw(st.integers(0, n)), ct])
        return {'sheets': sheets, 'extra_probes': 6, 'charts': sorted(charts)}
    return spec()


NSHARD = 16


def plan(tier):
    n = 300 if tier == 'quick' else 4000
    return [{'kind': 'hyp', 'shard': i, 'examples': n} for i in range(NSHARD)]


def run_shard(spec, rec):
    def body(s):
        for f in run_spec(s, rec):
            rec.fail(**f)
    hyp_run(strategy(), body, spec['examples'], ('c18', spec['shard']), rec)


def shrink_candidates(spec):
    shs = spec['sheets']
    if len(shs) > 1:
        for i in range(len(shs)):
            yield {**spec, 'sheets': shs[:i] + shs[i + 1:]}
    for i, sh in enumerate(shs):
        for j in range(len(sh['cells'])):
            s2 = [dict(x) for x in shs]
            s2[i]['cells'] = sh['cells'][:j] + sh['cells'][j + 1:]
            yield {**spec, 'sheets': s2}
    for i, sh in enumerate(shs):
        for j, (c, r, v) in enumerate(sh['cells']):
            if v != 1:
                s2 = [dict(x) for x in shs]
                s2[i]['cells'] = sh['cells'][:j] + [[c, r, 1]] + sh['cells'][j + 1:]
                yield {**spec, 'sheets': s2}


MATCHERS = {}
