"""C14 - lookup and reference functions return the addressed element.

Hypothesis + boundary construction: key columns (ascending / unsorted / duplicates / text / blanks), coordinate-coded
payload columns, lookup values present / between / below / above; VLOOKUP (exact, approximate, omitted mode),
MATCH 0/1, XMATCH exact from start / end, INDEX over every (r,c) around the area, INDEX(MATCH()), COLUMN;
ADDRESS exhaustively for columns 1..16384 through overrides.
Oracle: independent linear search / direct indexing over the planted table; own bijective base-26 conversion.
"""
import sys

from .. import env
from .. import wbk
from .. import fcase
from ..fcase import Q
from ..ref import formula as F

ID = 'C14'
LEVEL = 'exploration'
BUDGET_S = {'quick': 300, 'thorough': 1500}
RELATION = 'independent-search'
RULE = ('one workbook per generated table (key column of height 1-8, width 1-4, coordinate-coded payload) with up to ~40 lookup '
        'formulas; ADDRESS(r,c) for every column 1..16384 x sampled rows through overrides, COLUMN for references across A..XFD; '
        'non-trivial = the lookup value sits at a boundary (duplicate key, first/last row, between keys, below/above all keys, '
        'result column = width), the INDEX pair is on the border or just outside, or the ADDRESS/COLUMN column has >= 2 letters; '
        'distinct = distinct (table, formula) or (function, row, column)')
ASSUMPTIONS = ['approximate matching only on ascending numeric keys; every text key has one fixed spelling (mixed case), so equality never depends on case folding',
               'lookup values 0 and "" are not used when the key column contains blanks',
               'INDEX with a 0 index (asserted only where the other index lies outside the area: #REF!), multi-area INDEX, the descending binary XMATCH mode (-2) and VLOOKUP column 0 / > width are not asserted']

COLS = 'ABCDEFG'


def letters(c):
    s = ''
    while c > 0:
        c, r = divmod(c - 1, 26)
        s = chr(65 + r) + s
    return s


NA = F.Err('#N/A')
REF = F.Err('#REF!')


def same_key(a, b):
    if isinstance(a, str) or isinstance(b, str):
        return isinstance(a, str) and isinstance(b, str) and a.lower() == b.lower()
    if a is None or b is None:
        return False
    return a == b


def o_exact_first(keys, v):
    for i, k in enumerate(keys):
        if same_key(k, v):
            return i
    return None


def o_exact_last(keys, v):
    for i in range(len(keys) - 1, -1, -1):
        if same_key(keys[i], v):
            return i
    return None


def o_approx(keys, v):
    """last row whose key <= v on ascending numeric keys"""
    best = None
    for i, k in enumerate(keys):
        if k <= v:
            best = i
    return best


def lit(v):
    if isinstance(v, str):
        return f'"{v}"'
    if isinstance(v, float):
        return repr(v) if v >= 0 else f'-{-v!r}'
    return str(v)


def _queries(spec, table, cells, qs):
    keys, width = spec['keys'], spec['width']
    h = len(keys)
    tab = f'A1:{COLS[width - 1]}{h}'
    keyrng = f'A1:A{h}'
    ascending = spec['kind'] == 'ascending' or (spec['kind'] == 'close' and keys == sorted(keys))
    has_blank = any(k is None for k in keys)
    hrow = [0]

    def vref(v, via):
        if via == 'cell':
            hrow[0] += 1
            cells[f'H{hrow[0]}'] = v
            return f'H{hrow[0]}'
        return lit(v)

    def boundary(v):
        idx = [i for i, k in enumerate(keys) if same_key(k, v)]
        if len(idx) > 1 or (idx and idx[0] in (0, h - 1)):
            return True
        if not idx:
            return True
        return False
    for lk in spec['lookups']:
        v, via = lk['v'], lk.get('via', 'lit')
        if has_blank and v in (0, ''):
            continue
        vt = vref(v, via)
        fn = lk['fn']
        tags = [f'fn:{fn}', f'keys:{spec["kind"]}', 'via:' + via,
                'hit' if o_exact_first(keys, v) is not None else 'miss',
                'dup' if len([1 for k in keys if same_key(k, v)]) > 1 else 'nodup']
        if fn == 'VLOOKUP':
            col = lk['col']
            mode = lk['mode']  # 'FALSE' | 'TRUE' | None | '0' | '1'
            exact = mode in ('FALSE', '0')
            if exact:
                i = o_exact_first(keys, v)
            else:
                if not ascending or isinstance(v, str):
                    continue
                i = o_approx(keys, v)
            exp = table[i][col - 1] if i is not None else NA
            if exp is None:
                exp = F.BLANK
            m = f',{mode}' if mode is not None else ''
            coltext = f'{col}' if (col + len(qs)) % 4 else f'{2 * col}/2'      # a computed column number arrives as a float
            qs.append(Q(f'=VLOOKUP({vt},{tab},{coltext}{m})', exp, f'VLOOKUP:{"exact" if exact else "approx"}',
                        boundary(v) or col == width, tags + [f'mode:{mode}', 'col=width' if col == width else 'col<width']))
        elif fn == 'MATCH':
            mt = lk['mode']   # 0 | 1 | None (omitted: Excel's default is 1)
            if mt == 0:
                i = o_exact_first(keys, v)
            else:
                if not ascending or isinstance(v, str):
                    continue
                i = o_approx(keys, v)
            exp = i + 1 if i is not None else NA
            above = ascending and not isinstance(v, str) and all(k < v for k in keys)
            mform = f'=MATCH({vt},{keyrng},{mt})' if mt is not None else f'=MATCH({vt},{keyrng})'
            qs.append(Q(mform, exp, f'MATCH:{mt}', boundary(v), tags + [f'mode:{mt}'] + (['above-all'] if above else []),
                        meta={'above_all': above, 'frac_vs_int': isinstance(v, float) and any(isinstance(k, int) for k in keys)}))
        elif fn == 'XMATCH':
            sm = lk['mode']  # None (defaults), 1, -1, 2 (binary search over ascending keys)
            if sm == 2 and not (ascending and not isinstance(v, str) and len(set(keys)) == len(keys) and all(isinstance(k, (int, float)) for k in keys)):
                continue    # the binary mode is determined only for strictly ascending numeric keys
            i = o_exact_last(keys, v) if sm == -1 else o_exact_first(keys, v)
            exp = i + 1 if i is not None else NA
            if sm is None:
                f = f'=XMATCH({vt},{keyrng})' if lk.get('short') else f'=XMATCH({vt},{keyrng},0)'
            else:
                f = f'=XMATCH({vt},{keyrng},0,{sm})'
            qs.append(Q(f, exp, f'XMATCH:{sm}', boundary(v), tags + [f'mode:{sm}']))
        elif fn == 'INDEXMATCH':
            if width < 2:
                continue
            i = o_exact_first(keys, v)
            exp = table[i][1] if i is not None else fcase.ANY_ERR
            qs.append(Q(f'=INDEX(B1:B{h},MATCH({vt},{keyrng},0))', exp, 'INDEX(MATCH)', boundary(v), tags))
    if spec.get('index_grid'):
        for r in range(-1, h + 2):
            for c in range(-1, width + 2):
                if r == 0 or c == 0:
                    continue
                inside = 1 <= r <= h and 1 <= c <= width
                exp = table[r - 1][c - 1] if inside else REF
                if exp is None:
                    exp = F.BLANK
                border = r in (1, h, -1, h + 1) or c in (1, width, -1, width + 1)
                qs.append(Q(f'=INDEX({tab},{r},{c})', exp, 'INDEX:' + ('inside' if inside else 'neg' if (r < 0 or c < 0) else 'beyond'),
                            border, ['fn:INDEX', 'inside' if inside else 'outside']))
        # computed positions arrive as floats (6/2): the same element
        for r in range(1, h + 1):
            for c in range(1, width + 1):
                if (r + c) % 2 == 0:
                    exp = table[r - 1][c - 1]
                    qs.append(Q(f'=INDEX({tab},{2 * r}/2,{3 * c}/3)', F.BLANK if exp is None else exp, 'INDEX:computed-position', True, ['fn:INDEX', 'computed-position']))
        for r in range(1, h + 1):
            qs.append(Q(f'=ADDRESS({2 * r}/2,{3 * (r + width)}/3)', f'${letters(r + width)}${r}', 'ADDRESS:computed', True, ['fn:ADDRESS', 'computed-position']))
        # a row outside the area is outside it whatever the column argument says (0 = the whole row)
        for r in (h + 1, h + 2):
            qs.append(Q(f'=INDEX({tab},{r},0)', REF, 'INDEX:beyond-with-zero', True, ['fn:INDEX', 'outside', 'zero-index']))
        for c in (width + 1, width + 2):
            qs.append(Q(f'=INDEX({tab},0,{c})', REF, 'INDEX:beyond-with-zero', True, ['fn:INDEX', 'outside', 'zero-index']))
        # one-index form on vectors
        if width >= 2:
            for c in range(1, width + 1):
                qs.append(Q(f'=INDEX(A1:{COLS[width - 1]}1,{c})', table[0][c - 1] if table[0][c - 1] is not None else F.BLANK,
                            'INDEX:rowvec', True, ['fn:INDEX', 'vector']))
        if h >= 2:
            for r in range(1, h + 1):
                qs.append(Q(f'=INDEX(A1:A{h},{r})', table[r - 1][0] if table[r - 1][0] is not None else F.BLANK,
                            'INDEX:colvec', True, ['fn:INDEX', 'vector']))


def build(spec):
    keys, width = spec['keys'], spec['width']
    h = len(keys)
    twin = bool(spec.get('twin'))
    tables = {}
    cells_of = {}
    for home, shift in (('S', 0), ('T', 500000)) if twin else (('S', 0),):
        cells_h = {}
        table_h = []
        for r, k in enumerate(keys):
            row = [k] + [1000 * (r + 1) + c + 1 + shift for c in range(1, width)]
            table_h.append(row)
            for c, v in enumerate(row):
                if v is not None:
                    cells_h[f'{COLS[c]}{r + 1}'] = v
        tables[home], cells_of[home] = table_h, cells_h
    qs = []
    on = []
    for home in tables:
        # the same texts on every sheet: an unqualified area belongs to the sheet of its formula
        n0 = len(qs)
        _queries(spec, tables[home], cells_of[home], qs)
        on += [home] * (len(qs) - n0)
        if home == 'T':
            for q_ in qs[n0:]:
                q_.tags.append('formula-on-second-sheet')
    overrides = []
    if spec.get('wholecol') and not any(k is None for k in keys) and all(not (isinstance(k, str) and k == '') for k in keys):
        # the whole-column spelling of the key column / the table (exact modes only: what the blank rows below the keys mean to an
        # approximate search is not asserted), and keys planted below the data through the executor: positions are row numbers
        table = tables['S']
        last = COLS[width - 1]
        for lk in spec['lookups'][:4]:
            v = lk['v']
            if v in (0, '') or v is None or isinstance(v, bool):
                continue
            i = o_exact_first(keys, v)
            qs.append(Q(f'=MATCH({lit(v)},A:A,0)', i + 1 if i is not None else NA, 'MATCH:whole-column', True, ['fn:MATCH', 'whole-column']))
            qs.append(Q(f'=XMATCH({lit(v)},$A:$A,0)', i + 1 if i is not None else NA, 'XMATCH:whole-column', True, ['fn:XMATCH', 'whole-column']))
            if width >= 2:
                exp_ = table[i][width - 1] if i is not None else NA
                qs.append(Q(f'=VLOOKUP({lit(v)},A:{last},{width},FALSE)', F.BLANK if exp_ is None else exp_, 'VLOOKUP:whole-column', True, ['fn:VLOOKUP', 'whole-column']))
                if i is not None:
                    qs.append(Q(f'=INDEX(B:B,MATCH({lit(v)},A:A,0))', table[i][1], 'INDEX(MATCH):whole-column', True, ['fn:INDEX', 'whole-column']))
            on += ['S'] * (len(qs) - len(on))
        gap = spec.get('below_gap')
        if gap is not None and width >= 2:
            row = h + 1 + gap
            newkey = 777777
            overrides = [('S', 'A', str(row), newkey), ('S', 'B', str(row), 888888)]
            for f_, e_ in ((f'=MATCH({newkey},A:A,0)', row), (f'=XMATCH({newkey},A:A,0,-1)', row), (f'=INDEX(B:B,{row})', 888888),
                           (f'=VLOOKUP({newkey},A:B,2,FALSE)', 888888), (f'=INDEX(A:B,{row},2)', 888888)):
                qs.append(Q(f_, e_, 'whole-column:key-set-below', True, ['whole-column', 'key-set-below', f'gap:{min(gap, 3)}']))
            on += ['S'] * (len(qs) - len(on))
    # COLUMN(): own column.  fcase lays the queries of a sheet out in one row starting at first_col
    first_col = 12
    if spec.get('column_self'):
        qs.append(Q('=COLUMN()', first_col + sum(1 for x in on if x == 'S'), 'COLUMN:self', True, ['fn:COLUMN']))
        on.append('S')
    return {'sheets': [{'title': t, 'cells': cells_of[t]} for t in tables], 'queries': qs, 'on': on, 'first_col': first_col, 'ncols': 400,
            **({'overrides': overrides} if overrides else {})}


def run_case(spec):
    if spec.get('fn') in ('ADDRESS', 'COLUMN'):
        return run_grid_point(spec)
    return fcase.run_spec(sys.modules[__name__], spec)


# ------------------------------------------------------------------ ADDRESS / COLUMN grids

_TR = {}


def addr_tr():
    if 'a' not in _TR:
        o = wbk.translate_model({'sheets': [{'title': 'S', 'cells': {'C1': '=ADDRESS(A1,B1)'}}]})
        if o[0] != 'value':
            raise env.HarnessError(f'C14 ADDRESS workbook does not translate: {o}')
        _TR['a'] = o[1]
    return _TR['a']


def run_grid_point(case):
    if case['fn'] == 'ADDRESS':
        tr = addr_tr()
        ex = tr.executor()
        o = wbk.outcome(lambda: ex.set_cells([wbk.Cell('S', 'A', '1', case['r']), wbk.Cell('S', 'B', '1', case['c'])]))
        if o[0] == 'value':
            o = tr.get('S', 'C', '1', ex)
        exp = f"${letters(case['c'])}${case['r']}"
        if o[0] == 'value' and o[1] == exp:
            return []
        c = case['c']
        return [{'case': case, 'expected': exp, 'actual': wbk.show_outcome(o), 'relation': 'bijective-base-26',
                 'bucket': 'ADDRESS:' + ('c%26==0' if c % 26 == 0 else 'c>702' if c > 702 else 'c<=702')}]
    # COLUMN(ref) for a batch of references
    refs = case['refs']
    qs = [f'=COLUMN({r})' for r in refs]
    outs = wbk.eval_formulas([{'title': 'S', 'cells': {'A1': 1}}], qs, first_col=3, ncols=100)
    fails = []
    for r, o in zip(refs, outs):
        col = ''
        for ch in r.split('!')[-1].replace('$', ''):
            if not ch.isalpha():
                break
            col += ch
        exp = 0
        for ch in col:
            exp = exp * 26 + (ord(ch) - 64)
        if not (o[0] == 'value' and type(o[1]) is int and o[1] == exp):
            fails.append({'case': {'fn': 'COLUMN', 'refs': [r]}, 'expected': exp, 'actual': wbk.show_outcome(o),
                          'relation': 'column-number', 'bucket': 'COLUMN:ref'})
    return fails


# ------------------------------------------------------------------ generator

def strategy():
    from hypothesis import strategies as st
    WORDS = ['Ant', 'bee', 'Cat', 'dog', 'EEL', 'fox', 'Gnu', 'hen', 'ID-3']   # one fixed spelling per word: equal means identical

    @st.composite
    def spec(draw):
        kind = draw(st.sampled_from(['ascending', 'ascending', 'ascending', 'unsorted', 'text', 'blanks', 'close']))
        h = draw(st.integers(1, 8))
        if kind == 'close':
            # numbers that differ, but only just (tiny magnitudes, 13-digit neighbours): equal means equal, not "close"
            pool = draw(st.sampled_from([[1e-13, 2e-13, 3e-13, -2e-13, 0, 5e-13, -1e-13],
                                         [1234567890123, 1234567890124, 1234567890125, 1234567890126, 1234567890124.5],
                                         [0.1, 0.1000000000001, 0.1000000000002, 0.0999999999999, 0.1000000000003]]))
            keys = draw(st.lists(st.sampled_from(pool), min_size=h, max_size=h))
            if draw(st.booleans()):
                keys = sorted(keys)
        elif kind == 'ascending':
            base = sorted(draw(st.lists(st.one_of(st.integers(-5, 40), st.integers(0, 80).map(lambda k: k / 2)), min_size=h, max_size=h)))
            if h >= 2 and draw(st.integers(0, 2)) == 0:
                # a run of equal keys (approximate matching answers with the last row of the run)
                i = draw(st.integers(0, h - 2))
                for j in range(i + 1, min(h, i + 1 + draw(st.integers(1, 3)))):
                    base[j] = base[i]
                base = sorted(base)
            keys = base
        elif kind == 'unsorted':
            keys = draw(st.lists(st.one_of(st.integers(-5, 20), st.sampled_from([2.5, 7.5])), min_size=h, max_size=h))
        elif kind == 'text':
            keys = draw(st.lists(st.sampled_from(WORDS), min_size=h, max_size=h))
        else:
            keys = draw(st.lists(st.one_of(st.integers(1, 20), st.none(), st.sampled_from(WORDS)), min_size=h, max_size=h))
            if draw(st.booleans()):
                keys = keys + [None] * draw(st.integers(1, 3))     # the key range reaches below the last key
                h = len(keys)
        keys = [int(k) if isinstance(k, float) and k == int(k) else k for k in keys]
        width = draw(st.integers(1, 4))
        present = [k for k in keys if k is not None]
        nums = [k for k in keys if isinstance(k, (int, float))]

        def lookup_value():
            opts = []
            if present:
                opts += [st.sampled_from(present)] * 3
            if kind == 'close':
                return draw(st.one_of(opts + [st.sampled_from(pool)] * 3))
            if nums:
                lo, hi = min(nums), max(nums)
                opts += [st.just(lo - 1), st.just(hi + 1), st.just(hi + 0.5), st.sampled_from(nums).map(lambda x: x + 0.25),
                         st.just(lo - 0.5)]
            if kind in ('text', 'blanks'):
                opts += [st.sampled_from(WORDS), st.just('zzz')]
            if not opts:
                opts = [st.just(3)]
            return draw(st.one_of(opts))
        lookups = []
        for _ in range(draw(st.integers(4, 14))):
            fn = draw(st.sampled_from(['VLOOKUP', 'VLOOKUP', 'MATCH', 'MATCH', 'XMATCH', 'XMATCH', 'INDEXMATCH']))
            lk = {'fn': fn, 'v': lookup_value(), 'via': draw(st.sampled_from(['lit', 'lit', 'cell']))}
            if fn == 'VLOOKUP':
                lk['col'] = draw(st.integers(1, width))
                lk['mode'] = draw(st.sampled_from(['FALSE', 'FALSE', 'TRUE', None, '0', '1']))
            elif fn == 'MATCH':
                lk['mode'] = draw(st.sampled_from([0, 0, 0, 1, 1, None]))
            elif fn == 'XMATCH':
                lk['mode'] = draw(st.sampled_from([None, 1, -1, -1, 2, 2]))
                lk['short'] = draw(st.booleans())
            lookups.append(lk)
        return {'kind': kind, 'keys': keys, 'width': width, 'lookups': lookups,
                'index_grid': draw(st.integers(0, 2)) == 0, 'column_self': draw(st.booleans()), 'twin': draw(st.integers(0, 2)) == 0,
                'wholecol': draw(st.integers(0, 2)) == 0, 'below_gap': draw(st.sampled_from([None, None, 0, 1, 3, 7]))}
    return spec()


NSHARD = 16


def plan(tier):
    n = 400 if tier == 'quick' else 6000
    specs = [{'kind': 'hyp', 'shard': i, 'examples': n} for i in range(NSHARD)]
    specs += [{'kind': 'address', 'shard': 100 + i} for i in range(8)]
    specs += [{'kind': 'column', 'shard': 200}]
    return specs


def run_shard(spec, rec):
    if spec['kind'] == 'hyp':
        fcase.hyp_shard(sys.modules[__name__], strategy(), spec, rec)
    elif spec['kind'] == 'address':
        rows = [1, 3, 10, 1048576] if rec.tier == 'quick' else [1, 2, 3, 9, 10, 99, 100, 12345, 1048576]
        rec.exhaustive = True
        nt, n = set(), 0
        classes = {}
        for c in range(1 + (spec['shard'] - 100), 16385, 8):
            if rec.out_of_time():
                rec.exhaustive = False
                break
            for r in rows:
                case = {'fn': 'ADDRESS', 'r': r, 'c': c}
                n += 1
                if c > 26:
                    nt.add(env.chash(case))
                for tag in (['ADDRESS:c%26==0'] if c % 26 == 0 else []) + (['ADDRESS:c near 26^2'] if abs(c - 676) <= 1 or abs(c - 702) <= 1 else []):
                    classes[tag] = classes.get(tag, 0) + 1
                for f in run_grid_point(case):
                    rec.fail(**f)
        if len(rec.samples) < 2:
            rec.samples.append({'fn': 'ADDRESS', 'r': 3, 'c': 26 + (spec['shard'] - 100), 'expected': f'${letters(26 + (spec["shard"] - 100))}$3'})
        classes['fn:ADDRESS'] = n
        rec.bulk(n, nt, classes)
    else:
        import random
        rnd = random.Random(env.derive_seed('c14-column'))
        cols = sorted({1, 2, 25, 26, 27, 28, 51, 52, 53, 701, 702, 703, 704, 16383, 16384, 676, 677, 675, 18278 // 2} |
                      {rnd.randrange(1, 16385) for _ in range(80 if rec.tier == 'quick' else 1500)})
        refs = []
        for c in cols:
            if c > 16384:
                continue
            L = letters(c)
            form = rnd.choice(['{L}{r}', '${L}{r}', '{L}${r}', '${L}${r}', 'S!{L}{r}', '{L}{r}:{L}{r2}'])
            r = rnd.choice([1, 7, 123, 99999])
            refs.append(form.format(L=L, r=r, r2=r + 2))
        for i in range(0, len(refs), 90):
            chunk = refs[i:i + 90]
            for f in run_grid_point({'fn': 'COLUMN', 'refs': chunk}):
                rec.fail(**f)
            for r in chunk:
                rec.case({'fn': 'COLUMN', 'ref': r}, True, ['fn:COLUMN(ref)'])


def shrink_candidates(spec):
    if 'lookups' not in spec:
        return
    lks = spec['lookups']
    if len(lks) > 1 or spec.get('index_grid') or spec.get('column_self'):
        for i in range(len(lks)):
            yield {**spec, 'lookups': [lks[i]], 'index_grid': False, 'column_self': False}
        if spec.get('index_grid'):
            yield {**spec, 'lookups': [], 'column_self': False}
        return
    if spec.get('twin'):
        yield {**spec, 'twin': False}
    if spec['width'] > 1:
        w = spec['width'] - 1
        yield {**spec, 'width': w, 'lookups': [{**l, 'col': min(l.get('col', 1), w)} for l in lks]}
    if len(spec['keys']) > 1:
        for i in range(len(spec['keys'])):
            yield {**spec, 'keys': spec['keys'][:i] + spec['keys'][i + 1:]}


MATCHERS = {}
