"""C01 - formula operators keep their Excel meaning (precedence, sign, %, &, literals).

G1: exhaustive operator chains (k<=3 operators over the primes 2,3,5,7, one optional decoration -,+,% and one
    optional parenthesis pair);  G2: Hypothesis typed expression trees over literals and references whose values
    come from the workbook, from overrides or are blank;  G3: grid of numeric literal texts.
Oracle: vf.ref.formula.Evaluator (precedence lives in the AST); literals must equal float(text) exactly.
"""
import itertools
import random

from .. import env
from .. import wbk
from ..ref import formula as F
from ..run import hyp_run

ID = 'C01'
LEVEL = 'exploration'
BUDGET_S = {'quick': 300, 'thorough': 1500}
RULE = ('formulas over the operator grammar rendered from generated ASTs (exhaustive chains of <=3 operators over '
        'distinct primes with one decoration and one parenthesis pair; Hypothesis typed trees with <=10 operators over '
        'literals and references supplied by workbook constants / overrides / blanks; numeric literal grid; lane big: doubles of 2**53..1e300 from overrides, literals and quotients under &, +1-1, /2*2); '
        'non-trivial = at least two operators and the reference value differs from the value of the same token list '
        'under at least one wrong grouping (flat left-to-right, right-associative, unary-sign-loosest), or a literal '
        'with a fraction or exponent; distinct = distinct (formula text, cell values) JSON')
ASSUMPTIONS = ['arithmetic on text and ordering of mixed kinds are outside the asserted domain; text forms under & are asserted: TRUE / FALSE, the empty text for a blank, 15 significant digits for numbers; from 1e15 on Excel\'s exponent form 2.5E+15 (lane big); exponent forms of small numbers are not asserted; arithmetic on whole numbers beyond 2**53 that are stored in the workbook is not asserted (only their text form)',
               'floating-point results compared with relative tolerance 1e-12 (the product normalises to 15 digits around %)',
               'division by an expression whose reference value is 0 is skipped']

REFS = ['A1', 'A2', 'A3', 'A4', 'A5', 'A6']
WORDS = ['a', 'b', 'ab', 'abc', 'x', 'pear', 'fig', 'kiwi']
ARITH = ['+', '-', '*', '/']


# ------------------------------------------------------------------ structural triggers of the open findings

def level_chains(ast):
    """For every parenthesis level of a paren-fixed AST: (operators, unary_positions, pct_info) of the flat chain
    as the product's right-recursive grammar sees it."""
    chains = []

    def flatten(node, ops, operands):
        # binary nodes of one paren level, left to right
        if node[0] == 'bin':
            flatten(node[2], ops, operands)
            ops.append(node[1])
            flatten(node[3], ops, operands)
        else:
            operands.append(node)

    def visit(node):
        ops, operands = [], []
        flatten(node, ops, operands)
        info = []
        for o in operands:
            un = 0
            while o[0] == 'un':
                un += 1
                o = o[2]
            pcts = 0
            while o[0] == 'pct':
                pcts += 1
                o = o[1]
            core = o
            # a unary below a pct (e.g. (-3)% needs a par, so core is then 'par')
            info.append({'un': un, 'pct': pcts, 'core': core[0]})
            if core[0] == 'par':
                visit(core[1])
            elif core[0] == 'call':
                for a in core[2]:
                    visit(a)
            elif core[0] in ('un', 'pct', 'bin'):
                visit(core)
        chains.append((ops, info))
    visit(ast)
    return chains


def _cls(op):
    return 'cmp' if op in F.CMP else 'amp' if op == '&' else 'ar'


def triggers(ast):
    """Set of open-finding triggers present in the (paren-fixed) AST."""
    t = set()
    for ops, info in level_chains(ast):
        classes = [_cls(o) for o in ops]
        order = {'cmp': 0, 'amp': 1, 'ar': 2}
        if classes.count('cmp') > 1:
            t.add('cmp-chain')
        if any(order[classes[i]] > order[classes[i + 1]] for i in range(len(classes) - 1)):
            t.add('special-op-after-operator')
        for i, inf in enumerate(info):
            later = classes[i:]
            if inf['un'] and any(c != 'ar' for c in later):
                t.add('unary-before-special-op')
            if inf['pct']:
                if inf['pct'] > 1:
                    t.add('pct-pct')
                if inf['core'] == 'par':
                    t.add('pct-after-paren')
                if inf['core'] in ('un',):
                    t.add('pct-after-paren')
                if 0 < i < len(info) - 1:
                    t.add('pct-mid-chain')
                if any(c != 'ar' for c in later):
                    t.add('pct-before-special-op')
                if any(c != 'ar' for c in classes[:i]) and (len(later) > 0):
                    t.add('pct-inside-special-rest')
    return t


# ------------------------------------------------------------------ evaluation of a batch

def cell_env(values):
    def envf(ref):
        v = values.get(ref)
        return F.BLANK if v is None else v
    return envf


def judge(case, o, exp):
    """case: {'formula','ast','cells','overrides'}; o: product outcome; exp: reference value."""
    if o[0] == 'timeout':
        return []
    trig = sorted(triggers(F.fix_parens(case['ast']))) if 'ast' in case else []
    if o[0] != 'value':
        return [{'case': case, 'expected': F.show_ref(exp), 'actual': wbk.show_outcome(o), 'relation': 'reference-evaluator',
                 'bucket': 'raises:' + o[1] + (':' + '+'.join(trig) if trig else ''), 'extra': {'triggers': trig}}]
    ok, why = F.same_value(exp, o[1])
    if ok:
        return []
    return [{'case': case, 'expected': F.show_ref(exp), 'actual': wbk.show(o[1]), 'relation': 'reference-evaluator',
             'bucket': 'value' + (':' + '+'.join(trig) if trig else ':clean'), 'extra': {'triggers': trig, 'why': why}}]


def text_of_computed_fraction(ast, envf):
    """the text form of a fraction that was *computed* (3*(5%*7) is 1.05 or 1.0499999999999998 depending on where the
    15-digit normalisation happens) is not determined by the statement"""
    ev = F.Evaluator(envf)
    for sub in F.walk(ast):
        if sub[0] == 'bin' and sub[1] == '&':
            for side in (sub[2], sub[3]):
                if any(n[0] == 'bin' and n[1] in ARITH for n in F.walk(side)):
                    try:
                        sv = ev.value(side)
                    except F.OutOfDomain:
                        return True
                    if isinstance(sv, float) and sv != int(sv):
                        return True
    return False


def reference(ast, values):
    """-> reference value, or raises OutOfDomain."""
    v = F.Evaluator(cell_env(values)).value(ast)
    if isinstance(v, F.Err):
        raise F.OutOfDomain('error value (division by zero)')
    if isinstance(v, (int, float)) and not isinstance(v, bool):
        if v != v or abs(v) >= 1e15:
            raise F.OutOfDomain('magnitude')
    return v


def is_nontrivial(ast, values, exp):
    toks = F.tokens(F.fix_parens(ast))
    nops = sum(1 for k, _ in toks if k in ('op', 'pct'))
    if nops < 2:
        return False
    for name, alt in F.alt_parses(toks).items():
        try:
            v = F.Evaluator(cell_env(values)).value(F.strip_parens(alt))
        except (F.OutOfDomain, OverflowError, ZeroDivisionError):
            return True
        if isinstance(v, F.Err) or not F.same_value(exp, v if not isinstance(v, F.Blank) else 0)[0]:
            if type(v) is not type(exp) or v != exp:
                return True
    return False


def run_batch(cases, rec=None):
    """cases share nothing; each has its own cells (workbook constants) and overrides.  Cases with identical
    (cells, overrides) are grouped into one workbook."""
    fails = []
    groups = {}
    for c in cases:
        groups.setdefault(env.chash([c['cells'], c['overrides']]), []).append(c)
    for g in groups.values():
        cells = {k: v for k, v in g[0]['cells'].items() if v is not None}
        ov = [('S', k[0], k[1:], v) for k, v in g[0]['overrides'].items()]
        values = {**g[0]['cells'], **g[0]['overrides']}
        todo = []
        for c in g:
            try:
                exp = reference(c['ast'], values) if 'ast' in c else F.num_value(c['literal'])
                if 'literal' in c:
                    exp = float(c['literal'])
            except F.OutOfDomain as e:
                if rec:
                    rec.count('skipped_outside_domain')
                    rec.count('skip:' + str(e)[:40])
                continue
            except OverflowError:
                if rec:
                    rec.count('skipped_outside_domain')
                continue
            todo.append((c, exp))
        if not todo:
            continue
        # the same formula texts once more on a second sheet whose cells hold other values: an unqualified reference means the
        # sheet the formula sits on
        cells_t = {k: (v + 1 if isinstance(v, (int, float)) and not isinstance(v, bool) else v) for k, v in cells.items()}
        twin = []
        if any('ast' in c for c, _ in todo) and int(env.chash([g[0]['cells'], g[0]['overrides']]), 16) % 2 == 0:
            for c, _ in todo:
                if 'ast' not in c:
                    continue
                try:
                    twin.append((c, reference(c['ast'], {**{r: None for r in REFS}, **cells_t})))
                except (F.OutOfDomain, OverflowError):
                    pass
        sheets_ = [{'title': 'S', 'cells': cells}] + ([{'title': 'T', 'cells': cells_t}] if twin else [])
        outs_all = wbk.eval_formulas(sheets_, [c['formula'] for c, _ in todo] + [c['formula'] for c, _ in twin], first_col=3,
                                     ncols=10, overrides=ov, on=['S'] * len(todo) + ['T'] * len(twin))
        outs = outs_all[:len(todo)]
        for (c, exp_t), o in zip(twin, outs_all[len(todo):]):
            if rec:
                rec.case({'f': c['formula'], 'v': cells_t, 'sheet': 'T'}, False, ['lane:second-sheet'])
            for f in judge({**c, 'cells': cells_t, 'overrides': {}, 'sheet': 'T'}, o, exp_t):
                f['bucket'] = 'second-sheet:' + f['bucket']
                fails.append(f)
        for (c, exp), o in zip(todo, outs):
            if rec:
                if 'literal' in c:
                    nt = ('.' in c['literal'] or 'e' in c['literal'])
                    rec.case({'f': c['formula']}, nt, ['lane:literal'], sample=c)
                else:
                    trig = triggers(F.fix_parens(c['ast']))
                    nt = is_nontrivial(c['ast'], values, exp)
                    rec.case({'f': c['formula'], 'v': values}, nt,
                             ['lane:' + ('clean' if not trig else 'finding')] + [f'trig:{t}' for t in trig] +
                             [f'src:{c.get("src", "?")}', 'type:' + type(exp).__name__],
                             sample={'formula': c['formula'], 'cells': c['cells'], 'overrides': c['overrides'],
                                     'expected': F.show_ref(exp)})
            if 'literal' in c:
                # the product may keep an integer literal as a Python int: it must convert to the nearest double
                if o[0] == 'value' and type(o[1]) in (int, float) and float(o[1]) == exp:
                    continue
                fails.append({'case': c, 'expected': exp, 'actual': wbk.show_outcome(o), 'relation': 'literal-is-nearest-double',
                              'bucket': 'literal:' + ('exp' if 'e' in c['literal'] else 'frac' if '.' in c['literal'] else 'int')})
                continue
            fails += judge(c, o, exp)
    return fails


def run_case(case):
    c = dict(case)
    if c.get('kind') == 'big':
        return run_big([c])
    if 'ast' in c:
        c['formula'] = F.render(c['ast'], c.get('gaps'))
    if c.get('sheet') == 'T':
        # a failure on the second sheet: S holds the same text over values one lower
        s_cells = {k: (v - 1 if isinstance(v, (int, float)) and not isinstance(v, bool) else v) for k, v in c['cells'].items()}
        out = wbk.eval_formulas([{'title': 'S', 'cells': s_cells}, {'title': 'T', 'cells': c['cells']}], [c['formula'], c['formula']], first_col=3, ncols=10,
                                on=['S', 'T'])
        try:
            exp = reference(c['ast'], {**{r: None for r in REFS}, **c['cells']})
        except (F.OutOfDomain, OverflowError):
            return []
        fs = judge(c, out[1], exp)
        for f in fs:
            f['bucket'] = 'second-sheet:' + f['bucket']
        return fs
    return run_batch([c])


# ------------------------------------------------------------------ generators

PRIMES = ['2', '3', '5', '7']
ALL_OPS = ARITH + ['&'] + list(F.CMP)


def chain_ast(atoms, ops, paren):
    """Build the AST of `a0 op1 a1 ...` (atoms already decorated) with an optional parenthesised sub-chain (i,j)."""
    items = list(atoms)
    opl = list(ops)
    if paren:
        i, j = paren
        inner = F.parse(_chain_tokens(items[i:j + 1], opl[i:j]), check_funcs=False)
        items[i:j + 1] = [['par', inner]]
        opl[i:j] = []
    return F.parse(_chain_tokens(items, opl), check_funcs=False)


def _chain_tokens(items, ops):
    toks = []
    for n, it in enumerate(items):
        if n:
            toks.append(('op', ops[n - 1]))
        toks += F.tokens(it)
    return toks


def chains(k):
    """All chains with k operators: (ast, text)."""
    decos = [None, ('un', '-'), ('un', '+'), ('pct',)]
    for ops in itertools.product(ALL_OPS, repeat=k):
        for dpos in [None] + list(range(k + 1)):
            for d in (decos[1:] if dpos is not None else [None]):
                atoms = [['num', PRIMES[i]] for i in range(k + 1)]
                if dpos is not None:
                    atoms[dpos] = ['un', d[1], atoms[dpos]] if d[0] == 'un' else ['pct', atoms[dpos]]
                parens = [None] + [(i, j) for i in range(k + 1) for j in range(i + 1, k + 1) if (j - i) < k]
                for p in parens:
                    yield chain_ast(atoms, ops, p)


def literal_grid():
    ints = ['0', '1', '2', '7', '12', '123', '99999', '123456789']
    fracs = [None, '5', '1', '25', '675', '125', '0001', '333', '1415926535', '000000000001', '999999999999', '07', '7', '3', '15', '45', '55', '005']
    exps = [None, 'e2', 'e-2', 'e10', 'e-7', 'e22', 'e0', 'e1', 'e-1', 'e5']
    for i in ints:
        for f in fracs:
            for e in exps:
                yield i + ('.' + f if f else '') + (e or '')


def typed_strategies():
    from hypothesis import strategies as st
    intlit = st.integers(0, 99).map(lambda n: ['num', str(n)])
    declit = st.tuples(st.integers(0, 99), st.integers(1, 99)).map(lambda t: ['num', f'{t[0]}.{t[1]}'])
    explit = st.tuples(st.integers(1, 9), st.sampled_from(['e2', 'e-2', 'e3'])).map(lambda t: ['num', f'{t[0]}{t[1]}'])
    boollit = st.booleans().map(lambda b: ['bool', b])
    ref = st.sampled_from(REFS).map(lambda r: ['ref', r])
    num_leaf = st.one_of(intlit, intlit, declit, explit, ref, ref, boollit)

    def num_ext(ch):
        return st.one_of(
            st.tuples(st.sampled_from(ARITH), ch, ch).map(lambda t: ['bin', t[0], t[1], t[2]]),
            st.tuples(st.sampled_from(ARITH), ch, ch).map(lambda t: ['bin', t[0], t[1], t[2]]),
            st.tuples(st.sampled_from(['-', '-', '+']), ch).map(lambda t: ['un', t[0], t[1]]),
            ch.map(lambda x: ['pct', x]),
            ch.map(lambda x: ['par', x]))
    num = st.recursive(num_leaf, num_ext, max_leaves=6)
    # integer-valued expressions with an unambiguous text form
    int_leaf = st.one_of(intlit, st.sampled_from(['A1', 'A2']).map(lambda r: ['ref', r]))
    intexp = st.recursive(int_leaf, lambda ch: st.tuples(st.sampled_from(['+', '-', '*']), ch, ch).map(
        lambda t: ['bin', t[0], t[1], t[2]]), max_leaves=3)
    word = st.sampled_from(WORDS).map(lambda w: ['str', w])
    # texts with characters that mean something elsewhere (in formulas, in xml, in format strings): under & they are just characters
    odd = st.sampled_from(['a@b', '@', 'x  y', ' lead', 'trail ', 'tab\there', '#1', '{0}', '{x}', '[1]x', '_xlfn.', "o'k", 'a,b;c', '1+1', '(x)', 'A1:B2', 'é', 'ß', '100%',
                           '=1', '<>', '&', '$A$1', '\\n', '%s', 'TRUE', ' ',
                           # wildcards and tildes: outside a criterion they are ordinary characters
                           '*', '?', '~', 'a*', 'what?', '~*', '~?', '~~', '~~*', '?~~', 'a~*b?', 'is it ~? or *', '*~~?', '~a*']).map(lambda w: ['str', w])
    quotient = st.tuples(st.integers(1, 12), st.sampled_from([1, 2, 3, 4, 5, 8])).map(lambda t: ['par', ['bin', '/', ['num', str(t[0])], ['num', str(t[1])]]])
    # a zero with a minus sign on the double (0/-3, 0*-2.5) is the number 0 and is written 0
    minus_zero = st.sampled_from([['par', ['bin', '/', ['num', '0'], ['par', ['un', '-', ['num', '3']]]]], ['par', ['bin', '*', ['num', '0'], ['par', ['un', '-', ['num', '2.5']]]]]])
    piece = st.one_of(word, word, odd, intexp, minus_zero, st.tuples(st.integers(0, 9), st.integers(1, 9)).map(lambda t: ['num', f'{t[0]}.{t[1]}']),
                      boollit, quotient, st.sampled_from(['A5', 'A6']).map(lambda r: ['ref', r]),
                      st.one_of(boollit, st.sampled_from(['A5', 'A6']).map(lambda r: ['ref', r])).map(lambda x: ['un', '-', ['un', '-', x]]),
                      st.one_of(boollit, intlit).map(lambda x: ['un', '+', x]))
    txt = st.recursive(piece, lambda ch: st.tuples(ch, ch).map(lambda t: ['bin', '&', t[0], t[1]]), max_leaves=4)
    wordsonly = st.recursive(word, lambda ch: st.tuples(ch, ch).map(lambda t: ['bin', '&', t[0], t[1]]), max_leaves=3)
    cmpop = st.sampled_from(F.CMP)
    boolean = st.one_of(
        st.tuples(cmpop, num, num).map(lambda t: ['bin', t[0], t[1], t[2]]),
        st.tuples(cmpop, wordsonly, wordsonly).map(lambda t: ['bin', t[0], t[1], t[2]]),
        st.tuples(st.sampled_from(['=', '<>']), st.one_of(odd, odd, word), st.one_of(odd, word)).map(lambda t: ['bin', t[0], t[1], t[2]]))
    boolean2 = st.one_of(boolean, st.tuples(st.sampled_from(['=', '<>']), boolean, boolean).map(
        lambda t: ['bin', t[0], t[1], t[2]]))
    # booleans used as numbers
    mixed = st.tuples(st.sampled_from(ARITH[:3]), num, boolean).map(lambda t: ['bin', t[0], t[1], ['par', t[2]]])
    expr = st.one_of(num, num, txt, boolean2, mixed)
    cellval = st.one_of(st.none(), st.integers(-20, 20), st.integers(0, 9), st.booleans(),
                        st.integers(-2000, 2000).map(lambda n: n / 100), st.sampled_from([0, 1, 2, 3, 5, 7]))
    return expr, cellval


def batch_strategy(n):
    from hypothesis import strategies as st
    expr, cellval = typed_strategies()
    how = st.sampled_from(['cell', 'override', 'blank'])
    return st.tuples(st.lists(expr, min_size=n, max_size=n),
                     st.lists(st.tuples(cellval, how), min_size=len(REFS), max_size=len(REFS)),
                     st.integers(0, 2 ** 62).map(random.Random))   # drawn eagerly: the budget guard may skip a body without changing what is drawn


def make_cases(asts, cellspec, rnd, src):
    cells, overrides = {}, {}
    for r, (v, how) in zip(REFS, cellspec):
        if how == 'blank' or v is None:
            continue
        if isinstance(v, float) and v == int(v):
            v = int(v)
        if how == 'cell':
            cells[r] = v
        else:
            overrides[r] = v
            if rnd.random() < 0.5:
                cells[r] = 99  # an override must win over a workbook constant
    out = []
    for a in asts:
        if rnd.random() < 0.35:
            a1 = make_clean(a)
            if any(t.startswith('pct') for t in triggers(F.fix_parens(a1))):
                a1 = make_clean(a, True)
            a = a1
        fixed = F.fix_parens(a)
        toks = F.tokens(fixed)
        gaps = None
        if rnd.random() < 0.3:
            gaps = [rnd.choice(['', '', ' ', '  ']) for _ in toks]
        out.append({'ast': a, 'formula': F.text(toks, gaps), 'gaps': gaps, 'cells': cells, 'overrides': overrides,
                    'src': src})
    return out


def make_clean(ast, wrap_pct=False):
    """Insert parentheses so that the formula avoids the structural triggers of the open findings
    (special operator after another operator, sign or % next to & / comparison, % after anything but a bare operand)."""
    k = ast[0]
    if k == 'bin':
        op = ast[1]
        l, r = make_clean(ast[2], wrap_pct), make_clean(ast[3], wrap_pct)
        if op in F.CMP or op == '&':
            if l[0] in ('bin', 'un', 'pct'):
                l = ['par', l]
            if r[0] in ('un', 'pct'):
                r = ['par', r]
            elif r[0] == 'bin' and any(n[0] in ('un', 'pct') for n in _level_operands(r)):
                r = ['par', r]
            if op in F.CMP and r[0] == 'bin' and r[1] in F.CMP:
                r = ['par', r]
        return ['bin', op, l, r]
    if k == 'un':
        x = make_clean(ast[2], wrap_pct)
        return ['un', ast[1], x]
    if k == 'pct':
        x = make_clean(ast[1], wrap_pct)
        if x[0] not in ('num', 'ref'):
            return ['par', x] if x[0] != 'par' else x  # drop the % rather than hit pct-after-paren
        return ['par', ['pct', x]] if wrap_pct else ['pct', x]  # (5%) keeps the % away from neighbouring operators
    if k == 'par':
        return ['par', make_clean(ast[1], wrap_pct)]
    return ast


def _level_operands(node):
    if node[0] == 'bin':
        return _level_operands(node[2]) + _level_operands(node[3])
    return [node]



# ------------------------------------------------------------------ numbers beyond 2**53 / 1e15 (doubles, not integers)

BIG_VALUES = [2.0 ** 53, 2.0 ** 53 + 2, 2.0 ** 60, 1e15, 1e16, 123456789012345680.0, 1e20, 1.5e20, -1e20, -2.0 ** 53, 1e100, 1e300]
BIG_FORMS = ['text', 'text-units', 'plus-one-minus', 'ratio', 'times-one-text', 'minus-one-plus', 'half-double']
BIG_SOURCES = ['override', 'literal', 'quotient', 'cell-int']


def excel_big_text(v):
    """Excel's text form of a number of magnitude >= 1e15: 15 significant digits, mantissa without trailing zeros, E+exponent"""
    m, e = ('%.14E' % v).split('E')
    m = m.rstrip('0').rstrip('.')
    return f'{m}E+{int(e)}'


def big_cases():
    for v in BIG_VALUES:
        for src in BIG_SOURCES:
            if src == 'literal' and (v < 0 or float('%r' % v) != v or 'e' not in repr(v)):
                continue
            if src == 'cell-int' and abs(v) >= 1e25:
                continue
            for form in BIG_FORMS:
                if src == 'cell-int' and form not in ('text', 'text-units'):
                    continue   # arithmetic on stored whole numbers beyond 2**53 is not asserted (Excel itself keeps 15 digits of them)
                yield {'kind': 'big', 'value': v, 'source': src, 'form': form}


def _big_formula(c):
    v, src = c['value'], c['source']
    x = {'override': 'A1', 'cell-int': 'A1', 'literal': repr(v).replace('+', ''), 'quotient': '(A1/A2)'}[src]
    return {'text': f'={x}&""', 'text-units': f'={x}&" units"', 'plus-one-minus': f'=({x}+1)-{x}', 'ratio': f'={x}/{x}',
            'times-one-text': f'={x}*1&""', 'minus-one-plus': f'=({x}-1)+1-{x}', 'half-double': f'={x}/2*2-{x}'}[c['form']]


def run_big(cases, rec=None):
    """the operands are doubles: (x+1)-x is what double arithmetic gives, and the text that & joins is Excel's text form of
    the number (15 significant digits, E+exponent from 1e15 on)"""
    fails = []
    groups = {}
    for c in cases:
        groups.setdefault((c['value'], c['source']), []).append(c)
    for (v, src), g in groups.items():
        ov = [('S', 'A', '1', v)] if src == 'override' else [('S', 'A', '1', v * 4.0), ('S', 'A', '2', 4.0)] if src == 'quotient' else []
        outs = wbk.eval_formulas([{'title': 'S', 'cells': {'A1': int(v) if src == 'cell-int' else 5, 'A2': 7}}], [_big_formula(c) for c in g], first_col=3, ncols=10, overrides=ov)
        for c, o in zip(g, outs):
            form = c['form']
            if form in ('text', 'text-units', 'times-one-text'):
                exp = excel_big_text(v) + (' units' if form == 'text-units' else '')
                ok = o[0] == 'value' and type(o[1]) is str and o[1] == exp
            else:
                exp = {'plus-one-minus': (v + 1.0) - v, 'ratio': 1.0, 'minus-one-plus': (v - 1.0) + 1.0 - v, 'half-double': 0.0}[form]
                ok = o[0] == 'value' and type(o[1]) in (int, float) and o[1] == exp
            if rec:
                rec.case({'f': _big_formula(c), 'x': v, 'src': src}, True, ['lane:big', 'big:' + form, 'bigsrc:' + src], sample={**c, 'formula': _big_formula(c)})
            if not ok and o[0] != 'timeout':
                fails.append({'case': {**c, 'formula': _big_formula(c)}, 'expected': exp, 'actual': wbk.show_outcome(o), 'relation': 'double-arithmetic',
                              'bucket': 'big:' + form + ':' + src})
    return fails


NSHARD = 16


def plan(tier):
    specs = [{'kind': 'chains', 'shard': i, 'k3_fraction': 0.12 if tier == 'quick' else 1.0} for i in range(NSHARD)]
    specs += [{'kind': 'literals', 'shard': 50}, {'kind': 'big', 'shard': 51}]
    n = 40 if tier == 'quick' else 900
    specs += [{'kind': 'hyp', 'shard': 100 + i, 'examples': n} for i in range(NSHARD)]
    return specs


def run_shard(spec, rec):
    if spec['kind'] == 'chains':
        rnd = random.Random(env.derive_seed('c01-chains'))
        allc = []
        for k in (1, 2, 3):
            for a in chains(k):
                if k == 3 and spec['k3_fraction'] < 1 and rnd.random() > spec['k3_fraction']:
                    continue
                allc.append(a)
        mine = allc[spec['shard']::NSHARD]
        rec.exhaustive = spec['k3_fraction'] >= 1
        for i in range(0, len(mine), 150):
            if rec.out_of_time():
                rec.exhaustive = False
                break
            cases = [{'ast': a, 'formula': F.render(a), 'cells': {}, 'overrides': {}, 'src': 'chain'} for a in mine[i:i + 150]]
            for f in run_batch(cases, rec):
                rec.fail(**f)
    elif spec['kind'] == 'literals':
        lits = list(literal_grid())
        rec.exhaustive = True
        for i in range(0, len(lits), 200):
            cases = [{'literal': t, 'formula': '=' + t, 'cells': {}, 'overrides': {}} for t in lits[i:i + 200]]
            for f in run_batch(cases, rec):
                rec.fail(**f)
    elif spec['kind'] == 'big':
        rec.exhaustive = True
        for f in run_big(list(big_cases()), rec):
            rec.fail(**f)
    else:
        def body(ex):
            asts, cellspec, rnd = ex
            for f in run_batch(make_cases(asts, cellspec, rnd, 'typed'), rec):
                rec.fail(**f)
        hyp_run(batch_strategy(40), body, spec['examples'], ('c01', spec['shard']), rec)


def shrink_candidates(case):
    if 'ast' not in case or case.get('kind') == 'big':
        return
    for s in F.subtrees_smaller(case['ast']):
        yield {**case, 'ast': s, 'gaps': None}
    for k in list(case['cells']):
        c = dict(case['cells'])
        del c[k]
        yield {**case, 'cells': c}
    for k in list(case['overrides']):
        c = dict(case['overrides'])
        del c[k]
        yield {**case, 'overrides': c}


# ------------------------------------------------------------------ matchers for the open findings

def _has(trigs, f):
    return bool(set(trigs) & set((f.get('extra') or {}).get('triggers') or []))


MATCHERS = {
    # comparison / & not grouped by precedence: emitted on (left atom, whole remainder)
    'c01_misgrouped_special_op': lambda f: _has(['special-op-after-operator', 'cmp-chain', 'unary-before-special-op'], f),
    # % only works directly after a bare operand and breaks the grouping of what follows
    'c01_percent': lambda f: _has(['pct-pct', 'pct-after-paren', 'pct-before-special-op', 'pct-inside-special-rest',
                                   'pct-mid-chain'], f),
}
