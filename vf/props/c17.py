"""C17 - text functions obey the substring algebra.

Hypothesis: texts over a small mixed-case alphabet with wildcard and regex-special characters (length 0..8) supplied as
workbook constants, literals and overrides; integer positions / counts in a box around the length; LEFT / RIGHT (1 and 2
arguments), MID, the rebuild identity LEFT(t,n)&MID(t,n+1,len), & and CONCATENATE over texts / ints / short decimals,
SEARCH (2 and 3 arguments; plain, wildcard, ~-escaped and regex-special needles; mixed case), VALUE of numeric text.
Oracle: Python slicing, an own wildcard prefix matcher, decimal.Decimal.
"""
import sys
from decimal import Decimal

from .. import env
from .. import wbk
from .. import fcase
from ..fcase import Q, ANY_ERR
from ..ref import formula as F

ID = 'C17'
LEVEL = 'exploration'
BUDGET_S = {'quick': 300, 'thorough': 1500}
RELATION = 'substring-algebra'
RULE = ('one workbook per generated text with up to ~25 formulas over it; non-trivial = the count or position is on a boundary '
        '(0, length, length +- 1), or the text is empty, or contains a wildcard / regex-special character, or differs in case '
        'from the needle; distinct = distinct (text, supply route, formula)')
ASSUMPTIONS = ['SEARCH start positions are asserted for 1 <= s <= length only; an empty needle only with an explicit start position',
               'text forms: ints, decimals with <= 3 fractional digits, quotients a/b as 15 significant digits, booleans as TRUE / FALSE',
               'LEFT of a number, fractional counts, VALUE of dates/times/percent/thousands separators are not asserted']

ALPHABET = ['a', 'b', 'B', 'c', ' ', '.', '?', '*', '~', '(', '[', '+', '\\', '^', '$', '|', 'é', 'A']
SPECIAL = set('?*~([+\\^$|.')


# ------------------------------------------------------------------ own wildcard prefix matcher

def wtoks(p):
    out, i = [], 0
    while i < len(p):
        if p[i] == '~' and i + 1 < len(p) and p[i + 1] in '?*~':
            out.append(('lit', p[i + 1]))
            i += 2
            continue
        out.append(('one', None) if p[i] == '?' else ('any', None) if p[i] == '*' else ('lit', p[i]))
        i += 1
    return out


def prefix_match(toks, s):
    def m(ti, si):
        if ti == len(toks):
            return True
        k, ch = toks[ti]
        if k == 'any':
            return any(m(ti + 1, j) for j in range(si, len(s) + 1))
        if si >= len(s):
            return False
        if k == 'one' or ch == s[si]:
            return m(ti + 1, si + 1)
        return False
    return m(0, 0)


def o_search(f, t, s):
    toks = wtoks(f.lower())
    tl = t.lower()
    for p in range(s - 1, len(tl)):
        if prefix_match(toks, tl[p:]):
            return p + 1
    if prefix_match(toks, ''):
        return None  # a pattern that matches the empty string at the very end: not asserted
    return F.Err('#VALUE!')


def lit(t):
    return '"' + t + '"'


def num_text(x):
    """Excel's text form of a number: 15 significant digits, E+exponent from 1e15 on"""
    if isinstance(x, float) or abs(x) >= 10 ** 15:
        return ('%.15g' % x).replace('e+', 'E+')
    return repr(x)


def build(spec):
    t, via = spec['t'], spec['via']
    cells, overrides = {}, []
    L = len(t)
    if via == 'lit':
        T = lit(t)
    else:
        T = 'A1'
        if via == 'cell':
            cells['A1'] = t
        else:
            cells['A1'] = 'zzz'
            overrides.append(('S', 'A', '1', t))
    wild_lit = via == 'lit' and ('?' in t or '*' in t)
    qs = []
    brow = [0]
    crow = [0]

    def needle_ref(f, nvia):
        if nvia == 'lit':
            return lit(f)
        brow[0] += 1
        cells[f'B{brow[0]}'] = f
        return f'B{brow[0]}'
    for q in spec['queries']:
        fn = q['fn']
        base_tags = [f'fn:{fn}', f'via:{via}', 'empty-text' if L == 0 else 'special-chars' if SPECIAL & set(t) else 'plain-text'] + (['multiline'] if '\n' in t else [])
        trig = []
        if wild_lit:
            trig.append('wildcard-literal')
        if fn in ('LEFT', 'RIGHT'):
            n = q.get('n')
            if n is None:
                if L == 0:
                    continue
                exp = t[:1] if fn == 'LEFT' else t[-1:]
                f = f'={fn}({T})'
            else:
                exp = ANY_ERR if n < 0 else (t[:n] if fn == 'LEFT' else (t[L - n:] if 0 < n <= L else (t if n > L else '')))
                f = f'={fn}({T},{n})' if not (q.get('computed') and n >= 0) else f'={fn}({T},{2 * n}/2)'   # a computed count arrives as a float
            if L == 0:
                trig.append('empty-input-text')
            nt = n is None or n in (0, L, L - 1, L + 1) or L == 0 or bool(SPECIAL & set(t))
            qs.append(Q(f, exp, fn, nt, base_tags, meta={'triggers': trig}))
        elif fn == 'MID':
            k, n = q['k'], q['n']
            exp = ANY_ERR if (k < 1 or n < 0) else t[k - 1:k - 1 + n]
            if exp is not ANY_ERR and k > L:
                trig.append('mid-start-beyond-text')
            if L == 0:
                trig.append('empty-input-text')
            qs.append(Q(f'=MID({T},{k},{n})' if not (q.get('computed') and k >= 0 and n >= 0) else f'=MID({T},{3 * k}/3,{2 * n}/2)', exp, 'MID', k in (1, L, L + 1) or n in (0, L) or L == 0 or bool(SPECIAL & set(t)),
                        base_tags, meta={'triggers': trig}))
        elif fn == 'REBUILD':
            n = q['n']
            if not 0 <= n < L:
                continue
            qs.append(Q(f'=LEFT({T},{n})&MID({T},{n + 1},{L})', t, 'REBUILD', True, base_tags, meta={'triggers': trig}))
        elif fn in ('AMP', 'CONCATENATE'):
            parts = q['parts']
            texts, forms = [], []
            for p in parts:
                if p == '$T':
                    if L == 0 and via != 'lit':
                        texts = None
                        break
                    texts.append(t)
                    forms.append(T)
                elif isinstance(p, dict):
                    # a cell whose content is set through the executor over something else in the workbook: a zero, FALSE or the
                    # empty text that is set joins as what it is
                    v_ = p['$cell']
                    crow[0] += 1
                    cells[f'C{crow[0]}'] = 'zz-decoy'
                    overrides.append(('S', 'C', str(crow[0]), v_))
                    texts.append(('TRUE' if v_ else 'FALSE') if isinstance(v_, bool) else v_ if isinstance(v_, str) else num_text(v_))
                    forms.append(f'C{crow[0]}')
                elif isinstance(p, bool):
                    # the text form of a boolean is TRUE / FALSE
                    texts.append('TRUE' if p else 'FALSE')
                    forms.append('TRUE' if p else 'FALSE')
                elif isinstance(p, list):
                    # a quotient a/b in brackets: its text form has 15 significant digits and no trailing ".0"
                    texts.append(num_text(p[0] / p[1]))
                    forms.append(f'({p[0]}/{p[1]})')
                elif isinstance(p, str) and p.startswith('$') and len(p) > 1 and p != '$T':
                    # a number literal written with a superfluous fraction or an exponent: its text form is that of the number
                    texts.append('%.15g' % float(p[1:]))
                    forms.append(p[1:])
                elif isinstance(p, str):
                    texts.append(p)
                    forms.append(lit(p))
                else:
                    texts.append(num_text(p))
                    forms.append(num_text(p) if p >= 0 else f'(-{num_text(-p)})')
            if texts is None:
                continue
            exp = ''.join(texts)
            if fn == 'AMP':
                if len(forms) < 2:
                    continue
                f = '=' + '&'.join(forms)
            else:
                f = f'=CONCATENATE({",".join(forms)})'
            qs.append(Q(f, exp, fn, True, base_tags + [f'parts:{len(parts)}'], meta={'triggers': trig}))
        elif fn == 'SEARCH':
            f_, s, nvia = q['f'], q.get('s'), q.get('nvia', 'lit')
            if f_ == '' and L > 0 and s is not None and 1 <= s <= L:
                # the empty text occurs everywhere: at or after s it is found at s
                qs.append(Q(f'=SEARCH("",{T},{s})', s, 'SEARCH:empty-needle', True, base_tags + ['needle:empty'], meta={'triggers': list(trig)}))
                continue
            if f_ == '' or L == 0:
                continue
            if s is not None and not 1 <= s <= L:
                continue
            exp = o_search(f_, t, s or 1)
            if exp is None:
                continue
            tr2 = list(trig)
            wild = any(k != 'lit' for k, _ in wtoks(f_))
            if nvia == 'lit' and ('?' in f_ or '*' in f_):
                tr2.append('wildcard-literal-needle')
            if wild and SPECIAL & set(f_) - set('?*~'):
                tr2.append('wildcard-needle-with-regex-chars')
            if wild and SPECIAL & set(t) - set('?*~'):
                pass
            if wild:
                tr2.append('wildcard-needle')
            if '~' in f_:
                tr2.append('tilde-needle')
            nr = needle_ref(f_, nvia)
            # every third start position is written as a computation (its value arrives as a float)
            form = f'=SEARCH({nr},{T})' if s is None else f'=SEARCH({nr},{T},{s})' if (s + len(qs)) % 3 else f'=SEARCH({nr},{T},{2 * s}/2)'
            case_differs = f_.lower() in t.lower() and f_ not in t
            qs.append(Q(form, exp, 'SEARCH:' + ('wild' if wild else 'plain') + (':start' if s else ''),
                        True, base_tags + ['needle:' + ('wild' if wild else 'plain'), 'needle-via:' + nvia] +
                        (['case-differs'] if case_differs else []) + (['found'] if not isinstance(exp, F.Err) else ['absent']),
                        meta={'triggers': tr2}))
    for vq in spec.get('values', []):
        txt = vq['text']
        exp = Decimal(txt.strip())
        exp = int(exp) if exp == exp.to_integral_value() and 'e' not in txt.lower() and '.' not in txt else float(exp)
        brow[0] += 1
        cells[f'B{brow[0]}'] = txt
        form = f'=VALUE(B{brow[0]})' if vq.get('via') == 'cell' else f'=VALUE("{txt}")'
        qs.append(Q(form, exp, 'VALUE', True, ['fn:VALUE'], meta={'triggers': []}))
    return {'sheets': [{'title': 'S', 'cells': cells}], 'queries': qs, 'first_col': 12, 'ncols': 400, 'overrides': overrides}


def run_case(spec):
    return fcase.run_spec(sys.modules[__name__], spec)


# ------------------------------------------------------------------ generator

def strategy():
    from hypothesis import strategies as st
    text = st.lists(st.sampled_from(ALPHABET), min_size=0, max_size=8).map(''.join)
    plain = st.lists(st.sampled_from(['a', 'b', 'B', 'c', 'A', 'é', ' ']), min_size=1, max_size=8).map(''.join)

    # a text with a line break inside (Alt+Enter): a wildcard stands for it like for any other character
    multiline = st.tuples(plain, st.lists(st.sampled_from(['a', 'b', 'B', '\n', '2', ' ']), min_size=0, max_size=4).map(''.join), plain).map(
        lambda p: (p[0].strip() or 'a') + '\n' + p[1] + (p[2].strip() or 'b'))

    @st.composite
    def spec(draw):
        t = draw(st.one_of(text, text, plain, multiline))
        via = draw(st.sampled_from(['cell', 'lit', 'override']))
        if '\n' in t and via == 'lit':
            via = 'cell'
        if via == 'cell' and (t == '' or t != t.strip() and False):
            via = 'override'
        if via == 'lit' and '"' in t:
            via = 'cell'
        L = len(t)
        pos = st.integers(-2, L + 3)
        qs = []
        for _ in range(draw(st.integers(6, 16))):
            fn = draw(st.sampled_from(['LEFT', 'RIGHT', 'MID', 'MID', 'REBUILD', 'AMP', 'CONCATENATE', 'SEARCH', 'SEARCH', 'SEARCH']))
            if fn in ('LEFT', 'RIGHT'):
                qs.append({'fn': fn, 'n': draw(st.one_of(pos, pos, st.none())), 'computed': draw(st.integers(0, 4)) == 0})
            elif fn == 'MID':
                qs.append({'fn': fn, 'k': draw(pos), 'n': draw(pos), 'computed': draw(st.integers(0, 4)) == 0})
            elif fn == 'REBUILD':
                qs.append({'fn': fn, 'n': draw(st.integers(0, max(0, L - 1)))})
            elif fn in ('AMP', 'CONCATENATE'):
                part = st.one_of(st.just('$T'), st.sampled_from(['x', 'Yz', ' ', 'é']), st.integers(-9, 120),
                                 st.sampled_from([1.5, 0.25, 12.125, 3.7]), st.booleans(), st.sampled_from([1, 0]),
                                 st.sampled_from([[3, 3], [1, 2], [0, 5], [1, 3], [2, 3], [10, 4], [7, 7]]),
                                 # quotients in the decade where the exponent form begins (1e15 .. 1e17)
                                 st.sampled_from([[10 ** 16, 4], [10 ** 16, 7], [10 ** 16, 8], [10 ** 16, 40], [10 ** 17, 3], [2 * 10 ** 15, 2], [10 ** 15, 3]]),
                                 st.sampled_from([2.5e15, 1e16 / 7, 1e15, 9.99e14, 1e16, 1.5e20]).map(lambda v: {'$cell': v}),
                                 st.sampled_from(['$2.0', '$10.00', '$1e3', '$2.50', '$0.10', '$12.0']),
                                 st.sampled_from([0, False, '', 0, True, 7, 'w', 1.5]).map(lambda v: {'$cell': v}))
                qs.append({'fn': fn, 'parts': draw(st.lists(part, min_size=1, max_size=4))})
            else:
                # needles: substrings of t (possibly case-flipped / with wildcards put in), or fresh
                if L and draw(st.integers(0, 3)) > 0:
                    i = draw(st.integers(0, L - 1))
                    j = draw(st.integers(i + 1, min(L, i + 4)))
                    sub = t[i:j]
                    how = draw(st.sampled_from(['same', 'flip', 'qmark', 'star', 'escape']))
                    if how == 'flip':
                        sub = sub.swapcase()
                    elif how == 'qmark' and len(sub) >= 1:
                        k = draw(st.integers(0, len(sub) - 1))
                        sub = ''.join('~' + ch if ch in '?*~' and n != k else ch for n, ch in enumerate(sub[:k])) + '?' + \
                              ''.join('~' + ch if ch in '?*~' else ch for ch in sub[k + 1:])
                    elif how == 'star':
                        sub = ''.join('~' + ch if ch in '?*~' else ch for ch in sub[:1]) + '*' + \
                              ''.join('~' + ch if ch in '?*~' else ch for ch in sub[-1:])
                    elif how == 'escape':
                        sub = ''.join('~' + ch if ch in '?*~' else ch for ch in sub)
                    f_ = sub
                else:
                    f_ = draw(st.lists(st.sampled_from(ALPHABET), min_size=0, max_size=3).map(''.join))
                qs.append({'fn': 'SEARCH', 'f': f_, 's': draw(st.one_of(st.none(), st.integers(1, max(1, L)))),
                           'nvia': draw(st.sampled_from(['lit', 'cell', 'cell']))})
        values = []
        for _ in range(draw(st.integers(0, 3))):
            txt = draw(st.one_of(st.integers(-9999, 9999).map(str), st.tuples(st.integers(-99, 99), st.integers(0, 999)).map(lambda p: f'{p[0]}.{p[1]:03d}'),
                                 st.sampled_from([' 12', '12 ', ' 3.5 ', '+7', '1e3', '2.5e-2', '-0.5', '007'])))
            values.append({'text': txt, 'via': draw(st.sampled_from(['cell', 'lit']))})
        return {'t': t, 'via': via, 'queries': qs, 'values': values}
    return spec()


NSHARD = 16


def plan(tier):
    n = 700 if tier == 'quick' else 9000
    return [{'kind': 'hyp', 'shard': i, 'examples': n} for i in range(NSHARD)]


def run_shard(spec, rec):
    fcase.hyp_shard(sys.modules[__name__], strategy(), spec, rec)


def shrink_candidates(spec):
    qs, vs = spec['queries'], spec.get('values', [])
    if len(qs) + len(vs) > 1:
        for q in qs:
            yield {**spec, 'queries': [q], 'values': []}
        for v in vs:
            yield {**spec, 'queries': [], 'values': [v]}
        return
    t = spec['t']
    for i in range(len(t)):
        yield {**spec, 't': t[:i] + t[i + 1:]}
    if qs and qs[0]['fn'] == 'SEARCH':
        f_ = qs[0]['f']
        for i in range(len(f_)):
            if len(f_) > 1:
                yield {**spec, 'queries': [{**qs[0], 'f': f_[:i] + f_[i + 1:]}]}
        if qs[0].get('s') not in (None, 1):
            yield {**spec, 'queries': [{**qs[0], 's': None}]}


def _trig(f, *names):
    have = ((f.get('extra') or {}).get('meta') or {}).get('triggers') or []
    return any(n in have for n in names)


def _is_blank_actual(f):
    a = f['actual']
    return a[0] == 'value' and isinstance(a[1], dict) and a[1].get('$blank')


MATCHERS = {
    # a string literal containing ? or * is turned into its regex translation wherever it stands
    'c17_wildcard_literal': lambda f: _trig(f, 'wildcard-literal', 'wildcard-literal-needle'),
    # empty results come back as the blank object (and MID on an empty text fails)
    'c17_empty_text_is_blank': lambda f: _trig(f, 'empty-input-text', 'mid-start-beyond-text') and (_is_blank_actual(f) or f['actual'][0] == 'foreign' or f['actual'] == ['value', '0'] or (f['actual'][0] == 'value' and isinstance(f['actual'][1], str) and '0' in f['actual'][1])),
    # the wildcard path of SEARCH splices the needle into a regular expression
    'c17_search_wildcard_regex': lambda f: _trig(f, 'wildcard-needle'),
}
