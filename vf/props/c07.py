"""C07 - workbook text never becomes executable code.

Hypothesis: hostile strings (alphabet weighted towards ' " \\ newline # { } % ( ) + , and Python fragments; a payload family that
calls a canary planted in builtins) each carrying a unique marker word, placed in
  const      constant text cells
  lit        a plain string literal ("...")               lit-amp   "x" & "..." & "y" (several hostile literals in one formula)
  lit-arg    argument of LEFT / MID / IF / CONCATENATE / IFERROR / SEARCH(within) / VALUE / TEXT
  crit       criterion of COUNTIFS / SUMIF / SUMIFS / AVERAGEIFS       crit-op  operator-prefixed criterion ("<>...", ">=...")
  crit-amp   criterion assembled with & ("<>" & "...")                 pattern  the same positions with ? * ~ inside
  title      sheet titles (referenced from formulas, quoted)
with the safety check enabled and disabled.
Oracle:
  (1) the canary is never called while the module is loaded or any cell is evaluated;
  (2) audit of the returned source: it parses, and every occurrence of a marker lies inside the span of a string constant of
      the module's AST; when the string has no character that legitimately steers translation (leading comparison operator
      in a criterion, ? * ~), the module AST equals - up to the values of constants - the AST obtained with a harmless
      alphabetic string of the same length in its place;
  (3) round trip: a constant text cell and a plain literal (alone, under &, LEFT, MID, IF, CONCATENATE, IFERROR) evaluate to
      exactly the original string.
A rejection by the safety check or by the parser is an acceptable outcome.
"""
import ast
import builtins
import os
import re

from .. import env
from .. import wbk
from ..run import hyp_run

ID = 'C07'
LEVEL = 'exploration'
BUDGET_S = {'quick': 300, 'thorough': 1700}
RULE = ('one workbook per case with 1-5 marked hostile strings in generated placements, translated with the safety check on and off; '
        'a case = one (workbook, safety setting); non-trivial = some string contains one of \' " \\ newline or call syntax and sits in a '
        'formula literal, a criterion or a title; distinct = distinct (workbook, setting)')
ASSUMPTIONS = ['strings in formula literals contain no double quote (it ends the literal: the formula is then another formula or malformed) and no '
               'carriage return (xml normalises it); titles obey openpyxl (<= 31 characters, none of \\ / ? * [ ] :, no leading / trailing apostrophe)',
               'round trip is asserted for constants and plain literal positions only; what a criterion or pattern selects is C12\'s / C17\'s subject',
               'the differential audit is skipped for strings with a leading comparison operator in criterion position and for strings with ? * ~']

CANARY_NAME = 'VERIF_CANARY'
_calls = []


def _canary(*a, **k):
    _calls.append(1)
    return ''


def plant_canary():
    setattr(builtins, CANARY_NAME, _canary)


PAYLOADS = [
    "' + str(VERIF_CANARY()) + '", '" + str(VERIF_CANARY()) + "', "'+VERIF_CANARY()+'", "\\' + VERIF_CANARY() + \\'", "\\\\' + VERIF_CANARY() + '\\\\",
    "');VERIF_CANARY();('", "') or VERIF_CANARY() or ('", "', VERIF_CANARY(), '", "' if VERIF_CANARY() else '", "'.__class__(VERIF_CANARY()) + '",
    "'''+VERIF_CANARY()+'''", "{VERIF_CANARY()}", "{0.__class__}", "%(VERIF_CANARY)s", "__import__('builtins').VERIF_CANARY()",
    "\n        VERIF_CANARY()\n", "\n    def _0_0_0(self):\n        return VERIF_CANARY()\n", "\nVERIF_CANARY()\n", "'\nVERIF_CANARY()\n'",
    "' # ", "\\", "\\'", "'\\", "x\\", "\\N{BULLET}", "\\x27+VERIF_CANARY()+\\x27", "\\u0027+VERIF_CANARY()+\\u0027",
    "')]) + [VERIF_CANARY()] + ([('", "' + VERIF_CANARY() + r'", "'; import os; VERIF_CANARY(); '", "' + f'{VERIF_CANARY()}' + '",
    "lambda x: VERIF_CANARY()", "re.match(VERIF_CANARY(), '')", "self._regexp(VERIF_CANARY())", "<>'+str(VERIF_CANARY())+'", ">='+VERIF_CANARY()+'",
    "<>it's", ">=o'clock", "='", "<'", "*'+VERIF_CANARY()+'*", "?' + VERIF_CANARY() + '?", "~*' + VERIF_CANARY() + '",
    '"""', '""";VERIF_CANARY();"""', 'q"""q', '"""+VERIF_CANARY()+"""', '"', '""', '" + VERIF_CANARY() + "', '\\"""',
    "1 + VERIF_CANARY()", "1 if VERIF_CANARY() else 7", "0 or VERIF_CANARY()", "12 ;VERIF_CANARY()", "3.5 and VERIF_CANARY()", "7 + 41", "2 ** 10",
    "1\nVERIF_CANARY()", "007", "1_000", "0x10", "1e3", "5 # x",
    'say "what?"', 'a"*"b', '"?"', 'x"y', '"*', 'q"+VERIF_CANARY()+"?',
    "x(a=VERIF_CANARY()):#", "x(self, a=VERIF_CANARY()): pass\n    def y", "_0_0_0(self): return VERIF_CANARY()\n    def z", "0(self):\n        return VERIF_CANARY()\n    def q",
    "0.00 {0.__class__.__mro__[1].__name__}", "0 {unit}", "0.0 {0}", "#,##0.00 {0!r}", "0%{x}", "0.00 {VERIF_CANARY()}", "0 {0.__init__.__globals__}", "0.0{{}}", "0}{0",
    "{titles}", "{functions}", "{sheets_size}", "{{titles}}", "a'+str(VERIF_CANARY())+'b", 'a"+str(VERIF_CANARY())+"b', "_xlfn.", "_xlws.", "_xlfn.IFS(1,2)",
    "x_xlfn.y", "📊", "𝒳 = 𝒴", "\\ud83d", "\\U0001F4CA",
    # the file format's own escape spelling: as a text it is these very characters
    "part_x0041_7", "_x003D_1+1", "_x0027_+VERIF_CANARY()+_x0027_", "_x000A_", "a_x005F_b", "_x0022_",
    "it's", "'", "''", "'''", "a'b'c", "\\\\", "{", "}", "{}", "%", "%s", "#", "# comment", "a\nb", "\t", " ", "' '", "None", "True", "x)", "(", "f(x)",
]
ALPHABET = "abXY01 '\\\n#{}%()+,.:;=<>*?~!@$^&|[]_-/\"`é中📊𝒳"
LIT_ARG_FORMS = [('LEFT', '=LEFT({L},200)'), ('MID', '=MID({L},1,200)'), ('IF', '=IF(TRUE,{L},"no")'), ('IF2', '=IF(FALSE,"no",{L})'),
                 ('CONCATENATE', '=CONCATENATE("a",{L})'), ('IFERROR', '=IFERROR({L},1)'), ('amp', '="x"&{L}&"y"'), ('RIGHT', '=RIGHT({L},200)')]
OTHER_ARG_FORMS = ['=SEARCH("q",{L})', '=SEARCH({L},"abc")', '=VALUE({L})', '=TEXT(1,{L})', '=TEXT(1.5,{L})', '=TEXT(1234.5,{L})', '=TEXT(B2,{L})', '=COUNT({L})', '=IF({L}="a",1,2)', '=VLOOKUP({L},A1:B6,2,FALSE)',
                   '=MATCH({L},A1:A6,0)', '=DATEDIF(C1,C2,{L})', '=LEFT("abc",{L})', '=SUM(1,{L})', '={L}={L}', '=IFS({L}="",1,TRUE,2)']
CRIT_FORMS = ['=COUNTIFS(A1:A6,{L})', '=SUMIF(A1:A6,{L},B1:B6)', '=SUMIF(A1:A6,{L})', '=SUMIFS(B1:B6,A1:A6,{L})', '=AVERAGEIFS(B1:B6,A1:A6,{L})',
              '=COUNTIFS(A1:A6,"pear",A1:A6,{L})', '=SUMIFS(B1:B6,A1:A6,"fig",A1:A6,{L})']
OPS = ['<>', '>=', '<=', '>', '<', '=']
DATA = {'A1': 'pear', 'A2': 'fig', 'A3': "it's", 'A4': 'a*b', 'A5': 'plum', 'A6': 'fig', 'B1': 1, 'B2': 2, 'B3': 3, 'B4': 4, 'B5': 5, 'B6': 6,
        'C1': {'$dt': '2021-03-15T00:00:00'}, 'C2': {'$dt': '2022-11-30T00:00:00'}}


def marker(i):
    return f'VFMARK{i}Q'


def steering(s, place):
    if any(ch in s for ch in '?*~'):
        return True
    if place.startswith('crit') and s[:1] in '<>=':
        return True
    return False


def literal(s):
    return '"' + s + '"'


def build(spec, benign=False):
    """-> (model, probes) ; probes: [(sheet_title, addr, expected-or-None, string-index, place)]"""
    strings = spec['strings']
    titles = ['S']
    cells = dict(DATA)
    others = []
    probes = []
    row = [0]

    def put(text, expected, i, place):
        row[0] += 1
        addr = f'H{row[0]}'
        cells[addr] = text
        probes.append(('S', addr, expected, i, place))
    for i, st_ in enumerate(strings):
        s = st_['s']
        if benign:
            s = marker(i) + 'a' * max(0, len(s) - len(marker(i)))
        place = st_['place']
        if place == 'const':
            put(s, s, i, place)
        elif place == 'lit':
            put('=' + literal(s), s, i, place)
        elif place == 'lit-arg':
            name, form = LIT_ARG_FORMS[st_['form'] % len(LIT_ARG_FORMS)]
            exp = {'amp': 'x' + s + 'y', 'CONCATENATE': 'a' + s}.get(name, s)
            put(form.replace('{L}', literal(s)), exp, i, place)
        elif place == 'lit-amp':
            o = strings[st_['form'] % len(strings)]['s'] if not benign else 'b'
            if '"' in o:
                o = 'b'
            put('=' + literal(s) + '&"|"&' + literal(o), s + '|' + o, i, place)
        elif place == 'other-arg':
            form_ = OTHER_ARG_FORMS[st_['form'] % len(OTHER_ARG_FORMS)]
            put(form_.replace('{L}', literal(s)), None, i, place)
            if 'TEXT(' in form_ and ('{' in st_['s'] or '}' in st_['s']):
                # braces are characters of a number format like any others: the same format with ( ) in their place must give the
                # same text with ( ) in their place (whatever the function does with a format, it must not interpret the braces)
                put(form_.replace('{L}', literal(s.replace('{', '(').replace('}', ')'))), None, i, 'text-twin')
        elif place == 'crit':
            put(CRIT_FORMS[st_['form'] % len(CRIT_FORMS)].replace('{L}', literal(s)), None, i, place)
        elif place == 'crit-op':
            put(CRIT_FORMS[st_['form'] % len(CRIT_FORMS)].replace('{L}', literal(OPS[st_['form'] % len(OPS)] + s)), None, i, place)
        elif place == 'crit-amp':
            put(CRIT_FORMS[st_['form'] % len(CRIT_FORMS)].replace('{L}', literal(OPS[st_['form'] % len(OPS)]) + '&' + literal(s)), None, i, place)
        elif place == 'title':
            t = s
            others.append({'title': t, 'cells': {'A1': 7, 'B2': s}})
            q = "'" + t.replace("'", "''") + "'"
            put(f'={q}!A1+1', 8, i, place)
            put(f'=SUM({q}!A1:B1)', 7, i, place)
            probes.append((t, 'B2', s, i, 'title-const'))
        elif place == 'lit-dq':
            # Excel's spelling of a quote inside a literal is the doubled quote: accepted or not, the text is s or nothing
            put('="' + s.replace('"', '""') + '"', s, i, place)
        elif place == 'missing-title':
            # a reference to a sheet the workbook does not have: whatever becomes of it (a rejection, normally), the title is text
            q = "'" + s.replace("'", "''") + "'"
            put(f'={q}!A1+1', None, i, place)
            put(f'=IFERROR(SUM({q}!A1:B2),0)', None, i, place)
        else:
            raise env.HarnessError(place)
    model = {'sheets': [{'title': 'S', 'cells': cells}] + others}
    return model, probes


def string_spans(tree):
    spans = []
    for n in ast.walk(tree):
        if isinstance(n, ast.Constant) and isinstance(n.value, (str, bytes)):
            spans.append((n.lineno, n.col_offset, n.end_lineno, n.end_col_offset))
    return spans


def byte_cols(src):
    """line -> str line (ast columns are utf-8 byte offsets)"""
    return src.split('\n')


def marker_positions(src, mark):
    out = []
    for ln, line in enumerate(src.split('\n'), 1):
        for m in re.finditer(re.escape(mark), line):
            out.append((ln, len(line[:m.start()].encode('utf-8')), len(line[:m.end()].encode('utf-8'))))
    return out


def inside(pos, spans):
    ln, c0, c1 = pos
    for (l0, s0, l1, s1) in spans:
        if (l0, s0) <= (ln, c0) and (ln, c1) <= (l1, s1):
            return True
    return False


def masked_dump(tree):
    class M(ast.NodeTransformer):
        def visit_Constant(self, node):
            return ast.copy_location(ast.Constant(value=type(node.value).__name__), node)
    return ast.dump(M().visit(tree), annotate_fields=False, include_attributes=False)


def has_hostile(s):
    return any(ch in s for ch in '\'"\\\n') or bool(re.search(r'[A-Za-z_]\w*\(', s))


def run_spec(spec, rec=None):
    plant_canary()
    strings = spec['strings']
    try:
        model, probes = build(spec)
        path = wbk.write_xlsx(model)
    except env.HarnessError:
        raise
    except Exception as e:  # noqa: openpyxl refused a title / text
        if rec:
            rec.count('openpyxl_refused:' + type(e).__name__)
        return []
    fails = []
    nt = any(has_hostile(st_['s']) and st_['place'] != 'const' for st_ in strings)
    tags = sorted({'place:' + st_['place'] for st_ in strings} | {'payload' if CANARY_NAME in st_['s'] else 'text' for st_ in strings} |
                  {'steering' for st_ in strings if steering(st_['s'], st_['place'])})

    def fail(rel, bucket, expected, actual, extra=None, safety=None):
        fails.append({'case': {**spec, 'safety': safety}, 'expected': expected, 'actual': actual, 'relation': rel, 'bucket': bucket, 'extra': extra})
    try:
        # what the file holds (xml may normalise characters): the round trip is judged against that
        wb_ = wbk.openpyxl.load_workbook(path)
        stored = {}
        for (t, a, exp, i, place) in probes:
            stored[(t, a)] = wb_[t][a].value
        wb_.close()
        safeties = [spec['safety']] if spec.get('safety') is not None else [False, True]
        for safety in safeties:
            del _calls[:]
            o = wbk.outcome(lambda: wbk.translate_path(path, safety=safety))
            if rec:
                rec.case({'spec': spec, 'safety': safety}, nt, tags + ['safety:' + ('on' if safety else 'off'), 'outcome:' + (o[0] if o[0] != 'lib' else 'lib:' + o[1])],
                         sample={'strings': strings, 'safety': safety, 'outcome': o[0] if o[0] != 'value' else 'text',
                                 'formulas': [model['sheets'][0]['cells'][a] for (t, a, _, _, _) in probes if t == 'S'][:6]})
            if _calls:
                fail('canary-never-called', 'executed:during-translation', 0, len(_calls), safety=safety)
            if o[0] in ('timeout', 'lib'):
                continue
            if o[0] == 'foreign':
                fail('text-is-inert', 'translate:' + o[1], 'text or a library exception', wbk.show_outcome(o), safety=safety)
                continue
            src = o[1]
            # (2) audit of the source
            try:
                tree = ast.parse(src)
            except SyntaxError as e:
                line = src.split('\n')[e.lineno - 1][:200] if e.lineno else None
                fail('text-stays-inside-string-constants', 'escapes:SyntaxError', 'a module that parses', f'SyntaxError: {e.msg}', {'line': line}, safety)
                continue
            spans = string_spans(tree)
            bad = False
            for i, st_ in enumerate(strings):
                for pos in marker_positions(src, marker(i)):
                    if not inside(pos, spans):
                        fail('text-stays-inside-string-constants', 'escapes:' + st_['place'], 'marker inside a string constant',
                             {'line': src.split('\n')[pos[0] - 1][:300]}, {'string': st_}, safety)
                        bad = True
                        break
                if bad:
                    break
            if bad:
                continue
            if not any(steering(st_['s'], st_['place']) for st_ in strings):
                try:
                    bmodel, _ = build(spec, benign=True)
                    bo = wbk.translate_model(bmodel, safety=False)
                except Exception:   # noqa - the benign twin could not be written
                    bo = ('skip',)
                if bo[0] == 'value':
                    if masked_dump(tree) != masked_dump(ast.parse(bo[1].src)):
                        fail('same-code-as-with-a-harmless-string', 'structure-differs:' + '+'.join(sorted({st_['place'] for st_ in strings})),
                             'identical AST up to constants', 'different AST', safety=safety)
                        continue
                elif bo[0] in ('lib', 'foreign'):
                    # the hostile workbook translated, the harmless twin did not: the text steered the translation
                    fail('same-code-as-with-a-harmless-string', 'twin-rejected', 'both translate', wbk.show_outcome(bo), safety=safety)
                    continue
            # (1) + (3): load and evaluate
            del _calls[:]
            ol = wbk.outcome(lambda: wbk.load_source(src))
            if _calls:
                fail('canary-never-called', 'executed:at-load', 0, len(_calls), safety=safety)
                continue
            if ol[0] != 'value':
                if ol[0] != 'timeout':
                    fail('text-is-inert', 'load:' + ol[1], 'a loadable module', wbk.show_outcome(ol), safety=safety)
                continue
            ex = wbk.Executor().set_executed_class(class_object=ol[1])
            last_other = ('timeout',)
            for (t, a, exp, i, place) in probes:
                c, r = wbk.split_a1(a)
                del _calls[:]
                v = wbk.outcome(lambda: ex.get_cell(wbk.Cell(t, wbk.get_column_letter(c), str(r))).value)
                if rec:
                    rec.count('cells_evaluated')
                if _calls:
                    fail('canary-never-called', 'executed:' + place, 0, len(_calls), {'string': strings[i], 'cell': a}, safety)
                    break
                if v[0] == 'foreign' and v[1] in ('NameError', 'SyntaxError'):
                    fail('text-is-inert', f'eval:{v[1]}:{place}', 'a value or an evaluation error of the formula', wbk.show_outcome(v), {'string': strings[i]}, safety)
                    break
                if place == 'other-arg':
                    last_other = v
                if place == 'text-twin' and 'timeout' not in (v[0], last_other[0]):
                    a_, b_ = last_other, v
                    same = a_[0] == b_[0] and (a_[1] == b_[1] if a_[0] != 'value' else
                                               (isinstance(a_[1], str) and isinstance(b_[1], str) and a_[1].replace('{', '(').replace('}', ')') == b_[1]) or
                                               (not isinstance(a_[1], str) and type(a_[1]) is type(b_[1]) and a_[1] == b_[1]))
                    if not same:
                        fail('text-is-inert', 'format-braces-interpreted', wbk.show_outcome(b_), wbk.show_outcome(a_), {'string': strings[i], 'cell': a}, safety)
                        break
                if exp is not None and v[0] != 'timeout':
                    if place in ('const', 'title-const'):
                        exp = stored.get((t, a), exp)
                    elif isinstance(exp, str) and isinstance(stored.get((t, a)), str):
                        # a literal inside a formula: the xml may have normalised the formula text (it does not for the generated alphabet)
                        if stored[(t, a)] != model['sheets'][0]['cells'].get(a):
                            continue
                    if not (v[0] == 'value' and type(v[1]) is type(exp) and v[1] == exp):
                        if exp == '' and v[0] == 'value' and wbk.is_blank(v[1]):
                            continue     # the empty text of LEFT / MID is C17's open finding
                        fail('round-trip', 'round-trip:' + place, exp, wbk.show_outcome(v), {'string': strings[i], 'cell': a}, safety)
                        break
        return fails
    finally:
        try:
            os.unlink(path)
        except OSError:
            pass


def run_case(case):
    return run_spec(case)


def shrink_candidates(case):
    ss = case['strings']
    if len(ss) > 1:
        for i in range(len(ss)):
            yield {**case, 'strings': ss[:i] + ss[i + 1:]}
    for i, st_ in enumerate(ss):
        s = st_['s']
        for ln in (6, 2, 1):
            for j in range(0, max(0, len(s) - ln + 1)):
                ns = s[:j] + s[j + ln:]
                if marker(i) in ns:
                    yield {**case, 'strings': ss[:i] + [{**st_, 's': ns}] + ss[i + 1:]}
    if case.get('safety') is None:
        yield {**case, 'safety': False}


# ------------------------------------------------------------------ generator

def strategy():
    from hypothesis import strategies as st
    raw = st.one_of(st.sampled_from(PAYLOADS), st.sampled_from(PAYLOADS), st.text(alphabet=ALPHABET, min_size=0, max_size=14),
                    st.tuples(st.sampled_from(PAYLOADS), st.sampled_from(PAYLOADS)).map(lambda t: t[0] + t[1]))
    place = st.sampled_from(['const', 'lit', 'lit', 'lit-arg', 'lit-arg', 'lit-amp', 'other-arg', 'crit', 'crit', 'crit-op', 'crit-op', 'crit-amp', 'title', 'missing-title'])

    @st.composite
    def spec(draw):
        n = draw(st.integers(1, 5))
        out = []
        used_titles = {'s'}
        for i in range(n):
            p = draw(place)
            s = draw(raw)
            pos = draw(st.integers(0, len(s)))
            # the marker never splits an escape sequence the generator put there on purpose
            if pos > 0 and s[pos - 1] == '\\':
                pos -= 1
            s = s[:pos] + marker(i) + s[pos:]
            if p != 'const' and p != 'title':
                s = s.replace('"', "'").replace('\r', '')
            if p == 'title':
                s = ''.join(ch for ch in s if ch not in '\\/?*[]:\n\t\r')[:31]
                if marker(i) not in s:
                    s = (s[:31 - len(marker(i))] + marker(i))
                s = s.strip().strip("'") or marker(i)
                if marker(i) not in s or s.lower() in used_titles:
                    continue
                used_titles.add(s.lower())
            if p == 'const' and s.startswith('='):
                s = ' ' + s
            out.append({'s': s, 'place': p, 'form': draw(st.integers(0, 40))})
        if not out:
            out.append({'s': marker(0) + "'", 'place': 'lit', 'form': 0})
        # markers must be consistent with positions after dropped entries
        fixed = []
        for j, e in enumerate(out):
            s = re.sub(r'VFMARK\d+Q', marker(j), e['s'])
            fixed.append({**e, 's': s})
        return {'strings': fixed}
    return spec()


NSHARD = 16


def plan(tier):
    n = 70 if tier == 'quick' else 1500
    specs = [{'kind': 'hyp', 'shard': i, 'examples': n} for i in range(NSHARD)]
    specs += [{'kind': 'payloads', 'shard': 100 + i, 'part': i} for i in range(12)]
    return specs


def run_shard(spec, rec):
    if spec['kind'] == 'hyp':
        def body(s):
            for f in run_spec(s, rec):
                rec.fail(**f)
        hyp_run(strategy(), body, spec['examples'], (ID, spec['shard']), rec)
    else:
        if spec['part'] == 0:
            for c in combos():
                for f in run_spec(c, rec):
                    rec.fail(**f)
        # every payload once in every placement
        places = ['lit', 'lit-arg', 'lit-amp', 'other-arg', 'crit', 'crit-op', 'crit-amp', 'title', 'const', 'missing-title', 'lit-dq']
        for pi, p in enumerate(PAYLOADS):
            if pi % 12 != spec['part']:
                continue
            if rec.out_of_time():
                break
            for place in places:
                s = p + marker(0)
                if place == 'lit-dq' and '"' not in s:
                    continue
                if place not in ('const', 'title', 'lit-dq'):
                    s = s.replace('"', "'")
                if place == 'title':
                    s = ''.join(ch for ch in s if ch not in '\\/?*[]:\n\t\r')[:31].strip().strip("'")
                    if marker(0) not in s or not s:
                        continue
                forms_ = (pi, pi + 3) if place in ('lit-arg', 'crit', 'crit-op', 'crit-amp', 'other-arg') else (0,)
                if place == 'other-arg' and '{' in p:
                    forms_ += (3, 4, 5, 6)    # the TEXT forms: a number format with braces
                for form in forms_:
                    for f in run_spec({'strings': [{'s': s, 'place': place, 'form': form}], 'safety': False}, rec):
                        rec.fail(**f)


def combos():
    """two workbook texts that are harmless alone: a placeholder of the class template in a cell and a sheet title that reads as code"""
    titles = ["a'+str(VERIF_CANARY())+'b", 'a"+str(VERIF_CANARY())+"b', "x' if VERIF_CANARY() else 'y", "t'+VERIF_CANARY()+'"]
    for ph in ('{titles}', '{functions}', '{sheets_size}', '{name}', '{code}'):
        for place in ('const', 'lit', 'lit-arg', 'crit'):
            for i, t in enumerate(titles):
                yield {'strings': [{'s': marker(0) + ph, 'place': place, 'form': i}, {'s': (marker(1) + t)[:31], 'place': 'title', 'form': 0}], 'safety': False}


MATCHERS = {}
