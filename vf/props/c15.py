"""C15 - date functions follow the Gregorian calendar exactly.

Exhaustive grids driven through one translated workbook by overrides: DATE (+YEAR/MONTH/DAY inverses),
EDATE, EOMONTH, DATEDIF D/M/Y/YM (targeted at month/year anniversaries + background), NETWORKDAYS
(both orders, seeded holiday subsets), TODAY.  Oracle: datetime/calendar arithmetic written from the statement.
"""
import calendar
import datetime
import random

from .. import env
from .. import wbk

ID = 'C15'
LEVEL = 'exploration'
BUDGET_S = {'quick': 300, 'thorough': 1800}
RULE = ('grid points per function: DATE(y,m,d) y in {1904,1999,2000,2023,2024,2100} x m in -30..40 x d in -800..800 '
        '(quick: |d|<=62 plus stride 13) with YEAR/MONTH/DAY of the result; EDATE/EOMONTH for days of 2019..2024 x offsets -60..60; '
        'DATEDIF D/M/Y/YM for start days x (k months +- 2 days, k=0..72) plus a background stride; NETWORKDAYS for start days x '
        'end offsets -40..40 x {no holidays, two seeded holiday sets}; TODAY once per run.  non-trivial = the point needs '
        'normalisation (month outside 1..12 or day outside the month), or crosses a month end / leap day / year end, or the '
        'interval is reversed or contains a holiday on a working day; distinct = distinct (function, arguments)')
ASSUMPTIONS = ['years 1904..9999 only; results before 1900-03-01 not generated; DATEDIF with start > end and units MD/YD not asserted',
               'dates are supplied as date-times at midnight (what a workbook stores) or, every third point, as plain dates',
               'TODAY is accepted if it equals the local date read before or after the call']

DT = datetime.datetime
TD = datetime.timedelta


# ------------------------------------------------------------------ oracle

def o_date(y, m, d):
    total = y * 12 + (m - 1)
    yy, mm = divmod(total, 12)
    return DT(yy, mm + 1, 1) + TD(days=d - 1)


def shift_month(dt, n):
    total = dt.year * 12 + dt.month - 1 + n
    yy, mm = divmod(total, 12)
    last = calendar.monthrange(yy, mm + 1)[1]
    return yy, mm + 1, last


def o_edate(dt, n):
    yy, mm, last = shift_month(dt, n)
    return DT(yy, mm, min(dt.day, last))


def o_eomonth(dt, n):
    yy, mm, last = shift_month(dt, n)
    return DT(yy, mm, last)


def o_datedif(s, e, unit):
    months = (e.year - s.year) * 12 + (e.month - s.month) - (1 if e.day < s.day else 0)
    return {'D': (e - s).days, 'M': months, 'Y': months // 12, 'YM': months % 12}[unit]


def o_networkdays(s, e, holidays):
    sign = 1
    if s > e:
        s, e, sign = e, s, -1
    hol = {h.date() for h in holidays}
    n = 0
    d = s.date()
    while d <= e.date():
        if d.weekday() < 5 and d not in hol:
            n += 1
        d += TD(days=1)
    return sign * n


# ------------------------------------------------------------------ product side

_TR = {}
FORMULAS = {
    'DATE': '=DATE(A1,B1,C1)', 'YEAR.DATE': '=YEAR(DATE(A1,B1,C1))', 'MONTH.DATE': '=MONTH(DATE(A1,B1,C1))',
    'DAY.DATE': '=DAY(DATE(A1,B1,C1))',
    'EDATE': '=EDATE(D1,E1)', 'EOMONTH': '=EOMONTH(D1,E1)',
    'DATEDIF.D': '=DATEDIF(D1,F1,"D")', 'DATEDIF.M': '=DATEDIF(D1,F1,"M")', 'DATEDIF.Y': '=DATEDIF(D1,F1,"Y")',
    'DATEDIF.YM': '=DATEDIF(D1,F1,"YM")',
    'NETWORKDAYS': '=NETWORKDAYS(D1,F1)', 'NETWORKDAYS.H': '=NETWORKDAYS(D1,F1,H1:H6)',
    'TODAY': '=TODAY()', 'YEAR': '=YEAR(D1)', 'MONTH': '=MONTH(D1)', 'DAY': '=DAY(D1)',
    # the same through a sheet whose title is a number (the usual name of a calendar sheet): holidays and dates live there
    'NETWORKDAYS.H2': "=NETWORKDAYS(D1,F1,'2024'!A1:A6)", 'EDATE2': "=EDATE('2024'!D1,E1)", 'EOMONTH2': "=EOMONTH('2024'!D1,E1)", 'DAY2': "=DAY('2024'!D1)",
}
ADDR = {}


def base_tr():
    if 'o' not in _TR:
        cells = {}
        for i, (k, f) in enumerate(FORMULAS.items()):
            ADDR[k] = wbk.get_column_letter(10 + i)
            cells[f'{ADDR[k]}1'] = f
        o = wbk.translate_model({'sheets': [{'title': 'S', 'cells': cells}, {'title': '0', 'cells': {'A1': 'decoy'}}, {'title': '2024', 'cells': {'G1': 'calendar'}}]})
        if o[0] != 'value':
            raise env.HarnessError(f'C15 base workbook does not translate: {o}')
        _TR['o'] = o[1]
    return _TR['o']


_REUSE = {}


def ev(keys, fresh=False, **cells):
    tr = base_tr()
    if not fresh and 'H' not in cells and cells and sum(map(ord, repr(sorted(cells.items(), key=str)))) % 2:
        # every second point goes through one long-lived executor and through the very Cell objects of the calls before: their
        # values are changed in place and handed over again (what an application that recalculates in a loop does)
        if 'ex' not in _REUSE:
            _REUSE['ex'], _REUSE['cells'] = tr.executor(), {}
        ex = _REUSE['ex']
        cl = []
        for name, v in cells.items():
            for title in (('S', '2024') if name == 'D' else ('S',)):
                c = _REUSE['cells'].setdefault((title, name), wbk.Cell(title, name, '1'))
                c.value = v
                cl.append(c)
        o_set = wbk.outcome(lambda: ex.set_cells(cl))
        if o_set[0] != 'value':
            return {k: o_set for k in keys}
        return {k: tr.get('S', ADDR[k], '1', ex) for k in keys}
    ex = tr.executor()
    cl = []
    if sum(map(ord, repr(sorted(cells.items(), key=str)))) % 3 == 0:
        # every third point supplies its dates as plain dates (midnight date-times become datetime.date): the same day either way
        cells = {k: ([h.date() if isinstance(h, datetime.datetime) and h.time() == datetime.time(0) else h for h in v] if k == 'H' else
                     v.date() if isinstance(v, datetime.datetime) and v.time() == datetime.time(0) else v) for k, v in cells.items()}
    for name, v in cells.items():
        if name == 'H':
            for i, h in enumerate(v):
                cl.append(wbk.Cell('S', 'H', str(i + 1), h))
                cl.append(wbk.Cell('2024', 'A', str(i + 1), h))
        else:
            cl.append(wbk.Cell('S', name, '1', v))
            if name == 'D':
                cl.append(wbk.Cell('2024', 'D', '1', v))
    if cl:
        o_set = wbk.outcome(lambda: ex.set_cells(cl))
        if o_set[0] != 'value':
            return {k: o_set for k in keys}
    return {k: tr.get('S', ADDR[k], '1', ex) for k in keys}


def mismatch(case, exp, o, bucket):
    if o[0] == 'timeout':
        return None
    if o[0] == 'value' and type(o[1]) is type(exp) and o[1] == exp:
        return None
    if o[0] == 'value' and isinstance(exp, int) and type(o[1]) in (int, float) and not isinstance(o[1], bool) and o[1] == exp:
        return None
    return {'case': case, 'expected': wbk.show(exp), 'actual': wbk.show_outcome(o), 'relation': 'calendar-reference',
            'bucket': bucket if o[0] == 'value' else f'{bucket}:raises:{o[1]}'}


def run_point(case):
    """case: {'fn':..., args...} -> (list of failures, n_evaluations)"""
    fn = case['fn']
    fails = []
    if fn == 'DATE':
        y, m, d = case['y'], case['m'], case['d']
        exp = o_date(y, m, d)
        if (y + m + d) % 5 == 0:
            # every fifth point hands the parts over as the floats a computation gives (4048/2 is 2024.0)
            outs = ev(['DATE', 'YEAR.DATE', 'MONTH.DATE', 'DAY.DATE'], A=float(y), B=float(m), C=float(d))
        else:
            outs = ev(['DATE', 'YEAR.DATE', 'MONTH.DATE', 'DAY.DATE'], A=y, B=m, C=d)
        for k, e in (('DATE', exp), ('YEAR.DATE', exp.year), ('MONTH.DATE', exp.month), ('DAY.DATE', exp.day)):
            f = mismatch(case, e, outs[k], f'{k}:' + ('d<=-2' if d <= -2 else 'd>=-1') + (':m-out' if not 1 <= m <= 12 else ''))
            if f:
                fails.append(f)
        return fails, 4
    if fn in ('EDATE', 'EOMONTH'):
        s = wbk.dec(case['start'])
        if case.get('blank'):
            # the cell that holds the number of months is blank (never written, not set): a blank cell counts as 0
            outs = ev(['EDATE', 'EOMONTH', 'YEAR', 'MONTH', 'DAY', 'EDATE2', 'EOMONTH2', 'DAY2'], fresh=True, D=s)
        else:
            outs = ev(['EDATE', 'EOMONTH', 'YEAR', 'MONTH', 'DAY', 'EDATE2', 'EOMONTH2', 'DAY2'], D=s, E=case['n'])
        for k, e in (('EDATE', o_edate(s, case['n'])), ('EOMONTH', o_eomonth(s, case['n'])), ('YEAR', s.year),
                     ('MONTH', s.month), ('DAY', s.day), ('EDATE2', o_edate(s, case['n'])), ('EOMONTH2', o_eomonth(s, case['n'])), ('DAY2', s.day)):
            f = mismatch(case, e, outs[k], k)
            if f:
                fails.append(f)
        return fails, 5
    if fn == 'DATEDIF':
        s, e = wbk.dec(case['start']), wbk.dec(case['end'])
        outs = ev(['DATEDIF.D', 'DATEDIF.M', 'DATEDIF.Y', 'DATEDIF.YM'], D=s, F=e)
        for u in ('D', 'M', 'Y', 'YM'):
            f = mismatch(case, o_datedif(s, e, u), outs['DATEDIF.' + u], 'DATEDIF.' + u)
            if f:
                fails.append(f)
        return fails, 4
    if fn == 'NETWORKDAYS':
        s, e = wbk.dec(case['start']), wbk.dec(case['end'])
        hol = [wbk.dec(h) for h in case.get('holidays', [])]
        if case.get('with_arg'):
            outs = ev(['NETWORKDAYS.H', 'NETWORKDAYS.H2'], D=s, F=e, H=hol)
            f = mismatch(case, o_networkdays(s, e, hol), outs['NETWORKDAYS.H'], 'NETWORKDAYS.H' + (':reversed' if s > e else '')) or \
                mismatch(case, o_networkdays(s, e, hol), outs['NETWORKDAYS.H2'], 'NETWORKDAYS.H:digit-titled-sheet')
        else:
            outs = ev(['NETWORKDAYS'], D=s, F=e)
            f = mismatch(case, o_networkdays(s, e, []), outs['NETWORKDAYS'], 'NETWORKDAYS' + (':reversed' if s > e else ''))
        return ([f] if f else []), 1
    if fn == 'TODAY':
        before = datetime.date.today()
        o = ev(['TODAY'])['TODAY']
        after = datetime.date.today()
        ok = o[0] == 'value' and isinstance(o[1], DT) and o[1] in (DT(before.year, before.month, before.day),
                                                                     DT(after.year, after.month, after.day))
        if not ok:
            return [{'case': case, 'expected': wbk.show(DT(after.year, after.month, after.day)), 'actual': wbk.show_outcome(o),
                     'relation': 'today-is-local-midnight', 'bucket': 'TODAY'}], 1
        return [], 1
    if fn == 'TODAY.CLOCK':
        return today_with_clock(case), 3
    raise env.HarnessError(f'unknown fn {fn}')


def today_with_clock(case):
    """TODAY on one long-lived Executor while the (faked) local date moves: every evaluation reads the clock."""
    import types
    tr = base_tr()
    ns = {}
    exec(compile(tr.src, '<excel2pycl-generated>', 'exec'), ns)
    real = ns['datetime']
    clock = {'now': None}

    class FakeDate(real.date):
        @classmethod
        def today(cls):
            return real.date(*clock['now'])
    shim = types.SimpleNamespace(**{k: getattr(real, k) for k in dir(real) if not k.startswith('__')})
    shim.date = FakeDate
    ns['datetime'] = shim
    ex = wbk.Executor().set_executed_class(class_object=ns['ExcelInPython'])
    fails = []
    for step, (ymd, touch) in enumerate(zip(case['dates'], case['touch'])):
        clock['now'] = ymd
        if touch:
            wbk.outcome(lambda: ex.set_cells([wbk.Cell('S', 'A', '1', step)]))
        o = wbk.outcome(lambda: ex.get_cell(wbk.Cell('S', ADDR['TODAY'], '1')).value)
        exp = DT(*ymd)
        if not (o[0] == 'value' and isinstance(o[1], real.datetime) and o[1] == exp) and o[0] != 'timeout':
            fails.append({'case': case, 'expected': wbk.show(exp), 'actual': wbk.show_outcome(o), 'relation': 'today-is-the-current-local-date',
                          'bucket': 'TODAY:clock' + (':after-set_cells' if touch else ':no-setter-in-between'), 'extra': {'step': step}})
            break
    return fails


def run_case(case):
    return run_point(case)[0]


def nontrivial(case):
    fn = case['fn']
    if fn == 'DATE':
        y, m, d = case['y'], case['m'], case['d']
        if not 1 <= m <= 12:
            return True
        return not 1 <= d <= calendar.monthrange(y, m)[1]
    if fn in ('EDATE', 'EOMONTH'):
        s = wbk.dec(case['start'])
        yy, mm, last = shift_month(s, case['n'])
        return s.day > last or yy != s.year or (mm == 2 and last == 29) or fn == 'EOMONTH'
    if fn == 'DATEDIF':
        s, e = wbk.dec(case['start']), wbk.dec(case['end'])
        return s != e and (e.day < s.day or e.year != s.year or e.month != s.month)
    if fn == 'NETWORKDAYS':
        s, e = wbk.dec(case['start']), wbk.dec(case['end'])
        lo, hi = min(s, e), max(s, e)
        hol = [wbk.dec(h) for h in case.get('holidays', [])]
        return s > e or any(lo <= h <= hi and h.weekday() < 5 for h in hol) or (hi - lo).days >= 5
    return True


def tags(case):
    fn = case['fn']
    t = ['fn:' + fn]
    if fn == 'DATE':
        if case['d'] <= 0:
            t.append('DATE:day<=0')
        if case['d'] > 31:
            t.append('DATE:day>31')
        if not 1 <= case['m'] <= 12:
            t.append('DATE:month-out')
        if case['y'] % 4 == 0:
            t.append('DATE:year%4==0')
    if fn == 'DATEDIF':
        s, e = wbk.dec(case['start']), wbk.dec(case['end'])
        if e.day < s.day:
            t.append('DATEDIF:end-day-smaller')
        if e.month == s.month and e.day < s.day:
            t.append('DATEDIF:same-month-day-smaller')
    if fn == 'NETWORKDAYS':
        s, e = wbk.dec(case['start']), wbk.dec(case['end'])
        if s > e:
            t.append('NETWORKDAYS:reversed')
        if case.get('with_arg'):
            t.append('NETWORKDAYS:holidays-arg')
    return t


# ------------------------------------------------------------------ enumeration

def enc(dt):
    return {'$dt': dt.isoformat()}


def points(tier):
    quick = tier == 'quick'
    for y in (1904, 1999, 2000, 2023, 2024, 2100):
        for m in range(-30, 41):
            for d in range(-800, 801):
                if quick and not (abs(d) <= 62 or d % 13 == 0):
                    continue
                if y == 1904 and (y * 12 + m - 1) // 12 < 1902:
                    continue
                yield {'fn': 'DATE', 'y': y, 'm': m, 'd': d}
    day0 = DT(2019, 1, 1)
    ndays = (DT(2025, 1, 1) - day0).days
    for i in range(0, ndays, 3 if quick else 1):
        s = day0 + TD(days=i)
        for n in range(-60, 61):
            yield {'fn': 'EDATE', 'start': enc(s), 'n': n}
    rnd = random.Random(env.derive_seed('c15-datedif'))
    for i in range(0, ndays, 11 if quick else 2):
        s = day0 + TD(days=i)
        for k in range(0, 73):
            yy, mm, last = shift_month(s, k)
            ann = DT(yy, mm, min(s.day, last))
            for delta in (-2, -1, 0, 1, 2):
                e = ann + TD(days=delta)
                if e >= s:
                    yield {'fn': 'DATEDIF', 'start': enc(s), 'end': enc(e)}
        for _ in range(6 if quick else 30):
            e = s + TD(days=rnd.randrange(0, 2400))
            yield {'fn': 'DATEDIF', 'start': enc(s), 'end': enc(e)}
    rnd = random.Random(env.derive_seed('c15-networkdays'))
    w0 = DT(2023, 12, 1)
    for i in range(0, 400, 3 if quick else 1):
        s = w0 + TD(days=i)
        for off in range(-40, 41, 1 if not quick else 1):
            e = s + TD(days=off)
            yield {'fn': 'NETWORKDAYS', 'start': enc(s), 'end': enc(e)}
            lo, hi = min(s, e), max(s, e)
            for _ in range(1 if quick else 2):
                k = rnd.randrange(0, 7)
                hol = []
                for _ in range(k):
                    r = rnd.random()
                    if r < 0.7:
                        h = lo + TD(days=rnd.randrange(0, (hi - lo).days + 1))
                    elif r < 0.85 and hol:
                        h = rnd.choice(hol)  # duplicate
                    else:
                        h = lo + TD(days=rnd.choice([-3, -1, (hi - lo).days + 1, (hi - lo).days + 9]))
                    hol.append(h)
                yield {'fn': 'NETWORKDAYS', 'start': enc(s), 'end': enc(e), 'holidays': [enc(h) for h in hol[:6]], 'with_arg': True}
    yield {'fn': 'TODAY'}
    yield {'fn': 'TODAY.CLOCK', 'dates': [[2024, 2, 28], [2024, 2, 29], [2024, 3, 1], [2025, 1, 1]], 'touch': [False, False, True, False]}
    yield {'fn': 'TODAY.CLOCK', 'dates': [[2023, 12, 31], [2024, 1, 1], [2024, 1, 1], [2023, 6, 15]], 'touch': [True, False, False, False]}
    # month ends (incl. every 28/29 February) as EDATE / EOMONTH starts, whatever the stride of the sweep above
    for y in (2000, 2019, 2020, 2021, 2023, 2024, 2100):
        for m in range(1, 13):
            last = calendar.monthrange(y, m)[1]
            for d in {28, 29, 30, 31, last} if m != 2 else {27, 28, last}:
                if d <= last:
                    for n in range(-60, 61):
                        yield {'fn': 'EDATE', 'start': enc(DT(y, m, d)), 'n': n}
                    yield {'fn': 'EDATE', 'start': enc(DT(y, m, d)), 'n': 0, 'blank': True}
    # the first representable years: 1 January 1900 / 1901 plus any month and day offset
    for y in (1900, 1901):
        for m in range(-30, 41):
            for d in (-800, -366, -31, -1, 0, 1, 2, 28, 29, 31, 32, 60, 366, 800):
                yield {'fn': 'DATE', 'y': y, 'm': m, 'd': d}


NSHARD = 16


def plan(tier):
    return [{'kind': 'grid', 'shard': i} for i in range(NSHARD)]


def run_shard(spec, rec):
    rec.exhaustive = True
    nt = set()
    classes = {}
    evals = 0
    for idx, case in enumerate(points(rec.tier)):
        if idx % NSHARD != spec['shard']:
            continue
        if evals % 512 == 0 and rec.out_of_time():
            rec.exhaustive = False
            break
        fails, n = run_point(case)
        evals += n
        if nontrivial(case):
            nt.add(env.chash(case))
            if len(rec.samples) < 2 or (case['fn'] not in {s['fn'] for s in rec.samples} and len(rec.samples) < 6):
                rec.samples.append(case)
        for t in tags(case):
            classes[t] = classes.get(t, 0) + 1
        for f in fails:
            rec.fail(**f)
    rec.bulk(evals, nt, classes)


def shrink_candidates(case):
    if case['fn'] == 'DATE':
        for k, target in (('m', 1), ('d', 1), ('d', 0), ('d', -2), ('y', 2023)):
            if case[k] != target:
                yield {**case, k: target}
        for k in ('m', 'd'):
            if abs(case[k]) > 1:
                yield {**case, k: case[k] // 2}
    if case['fn'] == 'NETWORKDAYS' and case.get('holidays'):
        for i in range(len(case['holidays'])):
            yield {**case, 'holidays': case['holidays'][:i] + case['holidays'][i + 1:]}


MATCHERS = {}
