"""C20 - the importable runtime base class and the emitted runtime agree.

Lane `names`   the two classes expose the same helpers (every callable of the generated class that is not a per-cell member,
               and the members of the nested EmptyCell), with the same parameter lists.
Lane `calls`   Hypothesis: for every helper an argument strategy built from the pools the other checks use (numbers, numeric
               texts, texts with wildcards / regex characters, dates, blanks, error strings, flat and nested lists, matrices,
               criterion callables, thunks); the helper of a generated class and the helper of `class Hand(AbstractExcelInPython)`
               are called with equal arguments: same value (blank objects of either class are one value) or same exception type.
Lane `hand`    workbooks with formulas of the whole supported grammar (C05's seed grammar): the per-cell members of the generated
               class are moved into a hand-written subclass of the base; every cell must evaluate to the same outcome through
               Executor on both classes - the argument shapes real generated code produces.
"""
import datetime
import inspect
import re

from .. import env
from .. import wbk
from ..run import hyp_run
from . import c05

ID = 'C20'
LEVEL = 'exploration'
BUDGET_S = {'quick': 300, 'thorough': 1500}
RULE = ('lane calls: a case = one helper called with one generated argument list on both classes; non-trivial = at least one side returns a '
        'value that is not an error string and the helper is not a plain getter; lane hand: a case = one formula cell evaluated on the generated '
        'class and on the hand-written subclass of the base, non-trivial = the formula calls a function; lane names: one case per helper; '
        'distinct = distinct (helper, arguments) / formula')
ASSUMPTIONS = ['results are compared with == after mapping each class\'s own EmptyCell to one blank value, NaN equals NaN, exceptions by type name '
               '(each class\'s own ExcelInPythonException counts as the same type)',
               '_today is compared by type and by a one-day window, not by value']

A = None
G = None


def classes():
    global A, G
    if G is None:
        from excel2pycl.src.utilities.abstract_excel_in_python_class import AbstractExcelInPython
        o = wbk.translate_model({'sheets': [{'title': 'S', 'cells': {'A1': 1}}]})
        if o[0] != 'value':
            raise env.HarnessError(f'C20 base workbook does not translate: {o}')
        G = o[1].cls
        titles, sizes = G().get_titles(), G().get_sheets_size()

        def __init__(self, arguments=None):
            # what a hand-written subclass does: the base class knows no workbook
            AbstractExcelInPython.__init__(self, arguments)
            self._titles = dict(titles)
            self._sheets_size = [dict(s_) for s_ in sizes]
        A = type('Hand', (AbstractExcelInPython,), {'__init__': __init__, '_0_0_0': vars(G)['_0_0_0']})
    return G, A


CELL_MEMBER = re.compile(r'^_\d+_\d+_(\d+|any)(_\d+)?$')


def helpers_of(cls):
    out = {}
    for klass in reversed(cls.__mro__):
        if klass is object or klass.__name__ == 'ABC':
            continue
        for n, v in vars(klass).items():
            if CELL_MEMBER.match(n) or n in ('__module__', '__dict__', '__weakref__', '__doc__', '__qualname__', '__abstractmethods__', '_abc_impl',
                                             '__annotations__', '__firstlineno__', '__static_attributes__'):
                continue
            f = v.__func__ if isinstance(v, (staticmethod, classmethod)) else v
            if inspect.isclass(f):
                out[n] = ('class', sorted(m for m, mv in vars(f).items() if callable(mv)))
            elif callable(f):
                try:
                    params = [(p.name, p.kind.name, p.default is not inspect.Parameter.empty) for p in inspect.signature(f).parameters.values()]
                except (TypeError, ValueError):
                    params = None
                out[n] = ('static' if isinstance(v, staticmethod) else 'method', params)
    return out


# ------------------------------------------------------------------ argument encoding

def dec_arg(x, cls):
    if isinstance(x, dict):
        if '$blank' in x:
            return cls.EmptyCell()
        if '$dt' in x or '$d' in x:
            return wbk.dec(x)
        if '$crit' in x:
            op, v = x['$crit']
            v = dec_arg(v, cls)
            return {'>': lambda c: c > v, '<': lambda c: c < v, '=': lambda c: c == v, '<>': lambda c: c != v, '>=': lambda c: c >= v,
                    'low': lambda c: str(c).lower() == str(v).lower(), 'true': lambda c: True, 'false': lambda c: False,
                    're': lambda c: re.match(str(v), str(c))}[op]
        if '$thunk' in x:
            v = x['$thunk']
            if v == 'zero-div':
                return lambda: 1 / 0
            if v == 'key':
                return lambda: {}['k']
            if v == 'attr':
                return lambda: None.year
            if v == 'own':
                def own():
                    raise cls.ExcelInPythonException('x')
                return own
            val = dec_arg(v, cls)
            return lambda: val
        if '$tuple' in x:
            return tuple(dec_arg(y, cls) for y in x['$tuple'])
    if isinstance(x, list):
        return [dec_arg(y, cls) for y in x]
    return x


def norm(v):
    if type(v).__name__ == 'EmptyCell':
        return ('BLANK',)
    if isinstance(v, float) and v != v:
        return ('NAN',)
    if isinstance(v, (list, tuple)):
        return (type(v).__name__, [norm(x) for x in v])
    if isinstance(v, dict):
        return ('dict', sorted((repr(k), norm(x)) for k, x in v.items()))
    if isinstance(v, (int, float, str, bool, datetime.date, datetime.datetime, datetime.timedelta)) or v is None:
        return (type(v).__name__, v)
    if isinstance(v, re.Match):
        return ('match', v.group(0))
    if callable(v):
        return ('callable',)
    return ('repr', type(v).__name__)


def outcome_norm(o):
    if o[0] == 'value':
        return ('value', norm(o[1]))
    if o[0] in ('foreign', 'lib'):
        return ('raises', o[1])
    return (o[0],)


def call_both(helper, args):
    g, a = classes()
    res = []
    for cls in (g, a):
        inst = cls()
        f = getattr(inst, helper, None)
        if f is None:
            res.append(('missing',))
            continue
        xs = [dec_arg(x, cls) for x in args]
        res.append(wbk.outcome(lambda: f(*xs)))
    return res


def run_call(case, rec=None):
    helper, args = case['helper'], case['args']
    og, oa = call_both(helper, args)
    ng, na = outcome_norm(og) if og[0] != 'missing' else ('missing',), outcome_norm(oa) if oa[0] != 'missing' else ('missing',)
    if rec:
        nt = any(o[0] == 'value' and not (isinstance(o[1], str) and o[1].startswith('#')) for o in (og, oa)) and helper not in ('get_titles', 'get_sheets_size')
        rec.case(case, nt, ['helper:' + helper, 'outcome:' + ng[0]], sample={'helper': helper, 'args': args, 'generated': repr(ng)[:200]})
    if 'timeout' in (ng[0], na[0]):
        return []
    if helper == '_today' and ng[0] == na[0] == 'value':
        d0, d1 = og[1], oa[1]
        if type(d0) is type(d1) and abs((d0 - d1).days) <= 1:
            return []
    if ng != na:
        return [{'case': case, 'expected': repr(ng)[:400], 'actual': repr(na)[:400], 'relation': 'same-result-on-both-runtimes',
                 'bucket': f'call:{helper}:' + (na[0] if na[0] != 'value' else 'value') + (':' + na[1] if na[0] == 'raises' else ''), 'extra': None}]
    return []


# ------------------------------------------------------------------ lane hand: generated members on the base class

def hand_class(gen_cls):
    from excel2pycl.src.utilities.abstract_excel_in_python_class import AbstractExcelInPython
    members = {n: v for n, v in vars(gen_cls).items() if CELL_MEMBER.match(n)}
    inst = gen_cls()
    titles, sizes = inst.get_titles(), inst.get_sheets_size()

    def __init__(self, arguments=None):
        AbstractExcelInPython.__init__(self, arguments)
        self._titles = dict(titles)
        self._sheets_size = [dict(s) for s in sizes]
    return type('Hand', (AbstractExcelInPython,), {**members, '__init__': __init__})


def same_eval(a, b):
    return outcome_norm(a) == outcome_norm(b)


def run_hand(case, rec=None):
    """case: {'formulas': [text,...]} placed over C05's data workbook"""
    texts = case['formulas']
    model, addrs = c05.family_model(texts)
    o = wbk.translate_model(model)
    if o[0] != 'value':
        if rec:
            rec.count('hand:workbook-rejected')
        # translate them one by one instead
        good = []
        for t in texts:
            m1, _ = c05.family_model([t])
            if wbk.translate_model(m1)[0] == 'value':
                good.append(t)
        if not good or good == texts:
            return []
        return run_hand({'formulas': good}, rec)
    gen = o[1].cls
    fails = []
    ho = wbk.outcome(lambda: hand_class(gen))
    if ho[0] != 'value':
        return [{'case': case, 'expected': 'a subclass of the base class', 'actual': wbk.show_outcome(ho), 'relation': 'hand-written-subclass-computes-the-same',
                 'bucket': 'hand:class', 'extra': None}]
    hand = ho[1]
    eg = wbk.outcome(lambda: wbk.Executor().set_executed_class(class_object=gen))
    eh = wbk.outcome(lambda: wbk.Executor().set_executed_class(class_object=hand))
    if eg[0] != 'value' or eh[0] != 'value':
        return [{'case': case, 'expected': 'two executors', 'actual': [wbk.show_outcome(eg)[:2], wbk.show_outcome(eh)[:2]],
                 'relation': 'hand-written-subclass-computes-the-same', 'bucket': 'hand:executor', 'extra': None}]
    for t, a in zip(texts, addrs):
        c, r = wbk.split_a1(a)
        vg = wbk.outcome(lambda: eg[1].get_cell(wbk.Cell('S', wbk.get_column_letter(c), str(r))).value)
        vh = wbk.outcome(lambda: eh[1].get_cell(wbk.Cell('S', wbk.get_column_letter(c), str(r))).value)
        fn = re.findall(r'[A-Z]{2,}(?=\()', t)
        if rec:
            rec.case({'formula': t}, bool(fn), ['lane:hand'] + sorted({'fn:' + f for f in fn}), sample={'formula': t, 'generated': repr(outcome_norm(vg))[:160]})
        if 'timeout' in (vg[0], vh[0]) or 'TODAY' in t:
            continue
        if not same_eval(vg, vh):
            fails.append({'case': {'formulas': [t]}, 'expected': repr(outcome_norm(vg))[:300], 'actual': repr(outcome_norm(vh))[:300],
                          'relation': 'hand-written-subclass-computes-the-same',
                          'bucket': 'hand:' + (fn[0] if fn else 'operators') + ':' + (vh[1] if vh[0] != 'value' else 'value'), 'extra': None})
    if fails:
        return fails
    # two executors per class: one is given overrides and evaluated, then the other one (never given anything) is read - on the
    # generated class and on the hand-written subclass alike
    seen = {}
    for name, cls_ in (('generated', gen), ('hand', hand)):
        first = wbk.Executor().set_executed_class(class_object=cls_)
        second = wbk.Executor().set_executed_class(class_object=cls_)
        wbk.outcome(lambda: first.set_cells([wbk.Cell('S', 'A', '1', 1000), wbk.Cell('S', 'A', '2', 'changed'), wbk.Cell('S', 'D', '1', -5),
                                             wbk.Cell('S', 'B', '1', None), wbk.Cell('S', 'A', '3', None), wbk.Cell('S', 'E', '1', 0), wbk.Cell('S', 'B', '2', '')]))
        out = []
        for t, a in zip(texts, addrs):
            c, r = wbk.split_a1(a)
            # what the executor with the overrides reports (cells given without a value among them) is compared between the classes too
            out.append(outcome_norm(wbk.outcome(lambda: first.get_cell(wbk.Cell('S', wbk.get_column_letter(c), str(r))).value)))
            out.append(outcome_norm(wbk.outcome(lambda: second.get_cell(wbk.Cell('S', wbk.get_column_letter(c), str(r))).value)))
        out.append(outcome_norm(wbk.outcome(lambda: second.get_cell(wbk.Cell('S', 'A', '1')).value)))
        seen[name] = out
    for i, (a_, b_) in enumerate(zip(seen['generated'], seen['hand'])):
        t = texts[i] if i < len(texts) else 'A1'
        if a_ != b_ and 'timeout' not in (a_[0], b_[0]) and 'TODAY' not in t:
            fails.append({'case': {'formulas': [t]}, 'expected': repr(a_)[:300], 'actual': repr(b_)[:300], 'relation': 'hand-written-subclass-computes-the-same',
                          'bucket': 'hand:second-executor-without-overrides', 'extra': None})
            break
    return fails


def run_names(rec=None):
    g, a = classes()
    hg, ha = helpers_of(g), helpers_of(a)
    fails = []
    for n in sorted(set(hg) | set(ha)):
        if rec:
            rec.case({'name': n}, True, ['lane:names'])
        if n not in ha or n not in hg:
            fails.append({'case': {'name': n}, 'expected': 'present in both classes', 'actual': 'missing in the ' + ('base class' if n not in ha else 'generated class'),
                          'relation': 'same-set-of-helpers', 'bucket': 'names:missing:' + n, 'extra': None})
        elif hg[n] != ha[n] and n != '__init__':
            fails.append({'case': {'name': n}, 'expected': repr(hg[n]), 'actual': repr(ha[n]), 'relation': 'same-set-of-helpers',
                          'bucket': 'names:signature:' + n, 'extra': None})
    return fails


def run_case(case):
    if 'helper' in case:
        return run_call(case)
    if 'formulas' in case:
        return run_hand(case)
    if 'name' in case:
        return [f for f in run_names() if f['case'] == case]
    raise env.HarnessError(f'unknown C20 case {case}')


# ------------------------------------------------------------------ strategies for the calls lane

def strategies():
    from hypothesis import strategies as st
    blank = st.just({'$blank': 1})
    ints = st.one_of(st.integers(-5, 40), st.sampled_from([0, 1, 2, -1, 100, 1900, 2024, 12, 31, 10 ** 9, 2 ** 53, 2 ** 53 + 1, 9007199254740993, 10 ** 17 + 1, 10 ** 17]))
    floats = st.one_of(st.sampled_from([0.5, 2.5, -1.5, 0.125, 1e-7, 1e16, 1234.5678, 0.0045, 2.675, 1.005, 1e22, -0.0001]),
                       st.integers(-10 ** 6, 10 ** 6).map(lambda k: k / 1000))
    nums = st.one_of(ints, ints, floats)
    words = st.sampled_from(['', 'a', 'abc', 'Apple', 'apple', 'pear', 'a*c', 'a?c', 'a~*c', '*', '?', '~', 'x[y]', '(c?', 'a.b', 'a|b', '12', '1.5', '1,5', '007',
                             '1 234,56', '10 000', '50%', '1e3', '40817810099910004312', '40817810099910004313', '12345678901234567', '12345678901234568', '2.5e-1', 'TRUE', 'nan', 'inf', '#N/A', '#VALUE!', '2024-02-29', '29.02.2024', '12:30', 'Hello World', 'ß', 'straße', 'STRASSE', 'Straße', 'strasse', 'ﬁn', 'FIN', 'fin', 'İ', 'i̇', 'ǅ', 'ǆ', 'x' * 40])
    dates = st.sampled_from([{'$dt': '2024-02-29T00:00:00'}, {'$dt': '2020-01-31T00:00:00'}, {'$dt': '2023-12-15T10:30:00'}, {'$dt': '2021-03-15T00:00:00'},
                             {'$d': '2022-11-30'}, {'$dt': '1999-12-31T23:59:59'}, {'$dt': '2023-01-31T00:00:00'}, {'$dt': '2023-02-28T00:00:00'}])
    bools = st.booleans()
    scalar = st.one_of(nums, nums, words, words, dates, bools, blank, st.none())
    flat = st.lists(scalar, max_size=7)
    numlist = st.lists(st.one_of(nums, nums, blank, bools, words), max_size=7)
    nested = st.lists(st.one_of(scalar, flat), max_size=5)
    deep = st.lists(st.one_of(scalar, nested), max_size=4)
    col = st.lists(scalar.map(lambda v: [v]), min_size=0, max_size=7)            # [[x],[y],...]
    numcol = st.lists(st.one_of(nums, nums, blank, words).map(lambda v: [v]), min_size=0, max_size=7)
    sortedcol = st.lists(st.integers(-5, 30), min_size=1, max_size=7).map(lambda xs: [[x] for x in sorted(xs)])
    matrix = st.integers(1, 4).flatmap(lambda w: st.lists(st.lists(scalar, min_size=w, max_size=w), min_size=0, max_size=5))
    crit = st.one_of(st.tuples(st.sampled_from(['>', '<', '=', '<>', '>=']), nums).map(lambda t: {'$crit': list(t)}),
                     st.tuples(st.sampled_from(['low', '=', 're']), words).map(lambda t: {'$crit': list(t)}),
                     st.sampled_from([{'$crit': ['true', 0]}, {'$crit': ['false', 0]}]))
    thunk = st.one_of(scalar.map(lambda v: {'$thunk': v}), st.sampled_from([{'$thunk': 'zero-div'}, {'$thunk': 'key'}, {'$thunk': 'attr'}, {'$thunk': 'own'}]))
    small = st.integers(-3, 8)
    digits = st.one_of(st.integers(-4, 8), st.sampled_from([0, 1, 2, 20, 25, 30]))
    ops = st.sampled_from(['==', '!=', '<', '<=', '>', '>=', '=', '<>'])
    T = st.tuples
    # operands that differ by less than a double can tell (whole numbers above 2**53, digit-only texts), and near ties
    near = st.sampled_from([(2 ** 53, 2 ** 53 + 1), (9007199254740993, 9007199254740992), (10 ** 17, 10 ** 17 + 1), ('40817810099910004312', '40817810099910004313'),
                            ('12345678901234567', '12345678901234568'), (1.5, 1.7), (2, 2.5), (0.1 + 0.2, 0.3), ('Yes', 'YES'), ('abc', 'ABC'), (-1.5, -1),
                            (1234567890123456.25, 1234567890123456.5), (1.0000000000000002, 1.0), ('5', '05'), ('1000', '1e3')])
    nearpair = st.tuples(ops, near, st.booleans()).map(lambda t: (t[0], t[1][0], t[1][1]) if t[2] else (t[0], t[1][1], t[1][0]))

    def same_len_pair(k):
        return st.integers(0, 6).flatmap(lambda n: T(*[st.lists(scalar.map(lambda v: [v]), min_size=n, max_size=n) for _ in range(k)]))
    table = {
        'set_arguments': T(st.lists(T(st.sampled_from(['_0_0_0', '_0_1_1', 'x']), scalar).map(lambda t: {'uid': t[0], 'value': t[1]}), max_size=3)),
        'get_titles': T(), 'get_sheets_size': T(), '_today': T(),
        '_parse_date_obj': T(st.one_of(words, dates, nums, blank)),
        '_by_operator': st.one_of(T(ops, scalar, scalar), T(ops, scalar, scalar), nearpair),
        '_compare': st.one_of(T(ops, scalar, scalar), T(ops, scalar, scalar), nearpair),
        '_flatten_list': T(deep), '_find_error_in_list': T(flat), '_concat_arrays_values': T(flat, flat),
        '_normalize_float_number': T(st.one_of(floats, nums, st.sampled_from([4.000299999999999, 0.30000000000000004, 1.2345678901234567e-05, 400.03 / 100]))),
        '_only_numeric_list': T(flat, bools), '_only_bool_list': T(flat), '_only_datetime_list': T(flat),
        '_regexp': T(words), '_binary_search': T(st.one_of(sortedcol.map(lambda c: [r[0] for r in c]), flat), scalar, bools),
        '_sum': T(numlist), '_average': T(numlist), '_count': T(st.lists(matrix, max_size=2), flat, flat),
        '_match': st.one_of(T(scalar, st.one_of(col, sortedcol), st.sampled_from([0, 1, -1, 2])),
                            T(st.sampled_from(['straße', 'STRASSE', 'strasse', 'ﬁn', 'fin', 'FIN', 'Apfel']),
                              st.sampled_from([[['Apfel'], ['STRASSE'], ['Zebra']], [['apfel'], ['straße'], ['zebra']], [['fin'], ['ﬁn'], ['FIN']], [['Zebra'], ['Straße'], ['Apfel']]]),
                              st.sampled_from([0, 1, -1]))),
        '_xmatch': T(scalar, st.one_of(col, sortedcol), st.sampled_from([0, 1, -1, 2]), st.sampled_from([1, -1, 2, -2])),
        '_vlookup': T(scalar, st.one_of(matrix, sortedcol.map(lambda c: [r + [r[0] * 10, 'v'] for r in c])), st.integers(0, 5), st.one_of(bools, st.integers(0, 1))),
        '_sum_if': st.one_of(same_len_pair(2).flatmap(lambda p: T(st.just(p[0]), crit, st.just(p[1]))), T(col, crit, st.one_of(col, st.none()))),
        '_decimal_round': T(st.one_of(nums, floats), digits, st.sampled_from(['ROUND_HALF_UP', 'ROUND_UP', 'ROUND_DOWN'])),
        '_round': T(st.one_of(nums, floats, st.sampled_from([1.5e26, 123456789.125, 1250, 0.125, 2.5, -2.5])), digits),
        '_roundup': T(st.one_of(nums, floats, st.sampled_from([1.5e26, 123456789.125, 1251, -0.0001])), digits),
        '_rounddown': T(st.one_of(nums, floats, st.sampled_from([1.5e26, 999, 0.0003])), digits),
        '_date': T(st.sampled_from([2022, 2024, 1900, 0, 9999, 2023.5]), st.integers(-14, 26), st.integers(-40, 70)),
        '_datedif': T(st.one_of(dates, words), st.one_of(dates, words), st.sampled_from(['Y', 'M', 'D', 'MD', 'YM', 'YD', 'y', 'X'])),
        '_eomonth': T(st.one_of(dates, words, nums), st.one_of(st.integers(-30, 30), floats)), '_edate': T(st.one_of(dates, words, nums), st.one_of(st.integers(-30, 30), floats)),
        '_left': T(st.one_of(words, nums, blank), st.one_of(small, blank)), '_right': T(st.one_of(words, nums, blank), st.one_of(small, blank)),
        '_mid': T(st.one_of(words, nums, blank), small, small),
        '_address': st.one_of(T(st.integers(0, 30), st.sampled_from([1, 2, 26, 27, 52, 53, 702, 703, 16384, 0])),
                              T(st.integers(1, 30), st.integers(1, 800), st.integers(0, 5)), T(st.integers(1, 9), st.integers(1, 9), st.integers(1, 4), bools),
                              T(st.integers(1, 9), st.integers(1, 9), st.one_of(st.integers(1, 4), st.sampled_from(['1', '2', '3', '4'])),
                                st.sampled_from([0, 1, True, False, None, 'FALSE', 'TRUE', '0', '1', 'False', 'True', 0.0, '']), words),
                              T(st.integers(1, 9), st.integers(1, 9), st.integers(1, 4), bools, words)),
        '_or': T(st.lists(st.one_of(bools, nums, blank), max_size=5)), '_and': T(st.lists(st.one_of(bools, nums, blank), max_size=5)),
        '_min': T(numlist), '_max': T(numlist),
        '_day': T(st.one_of(dates, words, nums)), '_month': T(st.one_of(dates, words, nums)), '_year': T(st.one_of(dates, words, nums)),
        '_iferror': T(thunk, scalar), '_when_cell_is_empty_cast_to_zero': T(flat),
        '_averageifs': st.one_of(same_len_pair(2).flatmap(lambda p: T(st.just(p[0]), st.just(p[1]), crit)),
                                 same_len_pair(3).flatmap(lambda p: T(st.just(p[0]), st.just(p[1]), crit, st.just(p[2]), crit)), T(numcol, col, crit)),
        '_sumifs': st.one_of(same_len_pair(2).flatmap(lambda p: T(st.just(p[0]), st.just(p[1]), crit)),
                             same_len_pair(3).flatmap(lambda p: T(st.just(p[0]), st.just(p[1]), crit, st.just(p[2]), crit)), T(numcol, col, crit),
                             T(matrix, matrix, crit)),
        '_countifs': st.one_of(T(col, crit), same_len_pair(2).flatmap(lambda p: T(st.just(p[0]), crit, st.just(p[1]), crit)), T(col, crit, col, crit)),
        '_network_days': st.one_of(T(dates, dates), T(dates, dates, st.lists(st.lists(dates, min_size=1, max_size=1), max_size=4)), T(st.one_of(dates, words), st.one_of(dates, words))),
        '_index': T(st.one_of(matrix, col, T(matrix, matrix).map(lambda t: {'$tuple': list(t)})), st.one_of(st.integers(-1, 6), st.none()),
                    st.one_of(st.integers(-1, 6), st.none()), st.integers(1, 3)),
        '_cell_preprocessor': T(st.sampled_from(['_0_0_0', '_9_9_9', 'nope'])), 'exec_function_in': T(st.sampled_from(['_0_0_0', '_9_9_9', 'nope'])),
        '_count_blank': T(flat), '_ifs': T(st.lists(scalar, max_size=6)),
        '_criterion_operand': T(st.one_of(words, st.sampled_from(['27', '-3', '+2.5', '1e3', '007', '2.50', '-', '', '1e', '٣', '1_0', 'x7', '9' * 320, '1e999']))),
        '_with_rows_set_below': T(st.sampled_from([0, 0, 1, 5]), st.integers(0, 2), st.integers(0, 3), matrix),
        '_search': T(st.one_of(words, nums), st.one_of(words, nums, blank), st.one_of(st.integers(-1, 8), st.none())),
        '_excel_value_to_string': T(scalar), '_parse_date_formats': T(words, st.sampled_from(['%Y-%m-%d', '%d.%m.%Y', '%H:%M', 'x'])),
        '_value': T(st.one_of(words, words, nums, blank, dates, st.sampled_from(['1E3', '2,5', ' 12 ', '12abc', '1 000', '1 000', '3/4/2024', '12:30:15', '-5', '(5)', '$5']))),
    }
    return table


NSHARD = 16


def plan(tier):
    n = 3000 if tier == 'quick' else 30000
    specs = [{'kind': 'calls', 'shard': i, 'examples': n} for i in range(NSHARD)]
    specs += [{'kind': 'hand', 'shard': 100 + i, 'examples': 120 if tier == 'quick' else 2500} for i in range(8)]
    specs.append({'kind': 'names', 'shard': 200})
    return specs


def run_shard(spec, rec):
    from hypothesis import strategies as st
    if spec['kind'] == 'names':
        for f in run_names(rec):
            rec.fail(**f)
        # every helper of either class must have a strategy: a helper nobody calls is not compared
        g, a = classes()
        table = strategies()
        for n, (kind, _) in {**helpers_of(g), **helpers_of(a)}.items():
            if kind != 'class' and n not in table and n != '__init__':
                raise env.HarnessError(f'C20: no argument strategy for helper {n}')
    elif spec['kind'] == 'calls':
        table = strategies()
        names = sorted(table)
        mine = names[spec['shard']::NSHARD]
        for h in mine:
            if rec.out_of_time():
                break

            def body(args, h=h):
                for f in run_call({'helper': h, 'args': list(args)}, rec):
                    rec.fail(**f)
            # one call in eight hands one position a value of a kind the helper does not usually get there (a blank cell, None, a number
            # for a text, a text for a number, a boolean, a date): the two copies must still agree - same value or same exception type
            from hypothesis import strategies as st_
            off = st_.sampled_from([{'$blank': 1}, None, 0, 1, -1, True, False, 'x', '', 2.5, {'$dt': '2024-02-29T00:00:00'}, '#N/A', [], [[1]]])

            def perturb(t):
                args, k, i, v = t
                args = list(args)
                if k == 0 and args and not (isinstance(args[i % len(args)], dict) and '$crit' in args[i % len(args)]):
                    args[i % len(args)] = v
                return tuple(args)
            hyp_run(st_.tuples(table[h].map(lambda a: tuple(a) if isinstance(a, (list, tuple)) else (a,)), st_.integers(0, 7), st_.integers(0, 7), off).map(perturb),
                    body, spec['examples'], (ID, h), rec)
    else:
        seed = c05.seed_strategy()

        def body(asts):
            texts = []
            for a in asts:
                t = c05.render_tokens(c05.ast_tokens(a))
                if t not in texts:
                    texts.append(t)
            for f in run_hand({'formulas': texts}, rec):
                rec.fail(**f)
        hyp_run(st.lists(seed, min_size=12, max_size=12), body, spec['examples'], (ID, spec['shard']), rec)


MATCHERS = {}
