"""C03 - entry-point translation is a closed, faithful slice; cycles are rejected.

Hypothesis draws a dependency graph: formula cells over 1-3 sheets laid out in an acyclic order, edges through single references,
row ranges / rectangles that overlap other formula cells, whole-column ranges over a data column, cross-sheet edges, shared
sub-expressions, IF branches, INDEX; plus constants and blanks.  Every cell of the graph is taken as entry in turn.
Cyclic variants add one back edge (self loop, 2-cycle, long cycle, through a range, through the untaken branch of an IF).
Oracle: (a) closure vs the generator's own graph, (b) entry-point class == whole-file class == reference evaluator on the slice,
(c) cyclic => E2PyclParserException for the whole file and for every entry on or upstream of the cycle.
"""
import json
import os

from .. import env
from .. import wbk
from ..ref import formula as F
from ..run import hyp_run

ID = 'C03'
LEVEL = 'exploration'
BUDGET_S = {'quick': 300, 'thorough': 1800}
RULE = ('one generated dependency graph per example (3-25 formula cells, <= 3 sheets); a case = (graph, entry cell); non-trivial = the entry '
        'reaches >= 3 formula cells through at least one cross-sheet or area edge while some workbook cell is not reachable; cyclic '
        'cases (graph + back edge, entry) are counted as non-trivial when the entry reaches the cycle; distinct = distinct (graph, entry)')
ASSUMPTIONS = ['formulas are total numeric expressions (+, *, SUM, IF, INDEX, MAX, SUMIF over two areas of one shape); areas only cover cells earlier in the layout order',
               'blank cells inside a referenced area need not be members of the slice class (closure is asserted for non-blank cells)']

DEFAULT_TITLES = ['S', 'T', 'U']
TITLES = list(DEFAULT_TITLES)    # the titles of the case at hand (set from spec['titles'] by run_spec / the generator)
TITLE_SETS = [DEFAULT_TITLES, DEFAULT_TITLES, ['Sum', '2', '1'], ['My Data', 'T', "it's"], ['0', 'Data', '10']]


def pfx(t):
    """sheet prefix of a reference: quoted unless the title is a plain name"""
    return (t if t.isidentifier() else "'" + t.replace("'", "''") + "'") + '!'
L = wbk.get_column_letter
DATA_COL = 6   # column F holds constants only: the target of whole-column references


def order_key(node):
    return (node['r'], node['s'], node['c'])


def addr(n, from_sheet):
    p = '' if n['s'] == from_sheet else pfx(TITLES[n['s']])
    return f"{p}{L(n['c'])}{n['r']}"


def area_text(a, from_sheet):
    p = '' if a['s'] == from_sheet else pfx(TITLES[a['s']])
    if a.get('col'):
        return f"{p}{L(a['c0'])}:{L(a['c0'])}"
    return f"{p}{L(a['c0'])}{a['r0']}:{L(a['c1'])}{a['r1']}"


def area_coords(a, maxrow):
    if a.get('col'):
        return [(a['s'], a['c0'], r) for r in range(1, maxrow[a['s']] + 1)]
    return [(a['s'], c, r) for r in range(a['r0'], a['r1'] + 1) for c in range(a['c0'], a['c1'] + 1)]


def formula_text(node, nodes):
    f = node['f']
    s = node['s']
    k = f['k']

    def ref(i):
        return addr(nodes[i], s)
    if k == 'add':
        return f"={ref(f['a'])}+{ref(f['b'])}"
    if k == 'mul':
        return f"={ref(f['a'])}*2"
    if k == 'sum':
        return f"=SUM({area_text(f['area'], s)})"
    if k == 'sum2':
        return f"=SUM({area_text(f['area'], s)},{ref(f['a'])})"
    if k == 'max':
        return f"=MAX({area_text(f['area'], s)},0)"
    if k == 'if':
        return f"=IF({ref(f['a'])}>{f['t']},{ref(f['b'])},{ref(f['c'])})"
    if k == 'index':
        return f"=INDEX({area_text(f['area'], s)},1,1)"
    if k == 'shared':
        return f"=SUM({area_text(f['area'], s)})+SUM({area_text(f['area'], s)})"
    if k == 'sumif':
        return f"=SUMIF({area_text(f['area'], s)},\">0\",{area_text(f['area2'], s)})"
    if k == 'raw':
        return f['text']
    raise ValueError(k)


def deps_of(node, nodes, coord_index, maxrow):
    """node indices and raw coordinates this node's formula mentions"""
    f = node.get('f')
    if not f:
        return [], []
    idx = [f[x] for x in ('a', 'b', 'c') if x in f]
    coords = []
    if 'area' in f:
        coords = area_coords(f['area'], maxrow)
    if 'area2' in f:
        coords = coords + area_coords(f['area2'], maxrow)
    if f['k'] == 'raw':
        idx = list(f.get('deps', []))
        coords = [tuple(x) for x in f.get('coords', [])]
    return idx, coords


def workbook_of(spec):
    nodes = spec['nodes']
    sheets = [{'title': TITLES[i], 'cells': {}} for i in range(spec['nsheets'])]
    for n in nodes:
        if n.get('f'):
            sheets[n['s']]['cells'][wbk.a1(n['c'], n['r'])] = formula_text(n, nodes)
        elif n.get('v') is not None:
            sheets[n['s']]['cells'][wbk.a1(n['c'], n['r'])] = n['v']
    return {'sheets': sheets}


def analyse(spec):
    nodes = spec['nodes']
    coord_index = {(n['s'], n['c'], n['r']): i for i, n in enumerate(nodes)}
    maxrow = [max([n['r'] for n in nodes if n['s'] == s and (n.get('f') or n.get('v') is not None)] or [0]) for s in range(spec['nsheets'])]
    edges = {}
    for i, n in enumerate(nodes):
        idx, coords = deps_of(n, nodes, coord_index, maxrow)
        edges[i] = set(idx) | {coord_index[c] for c in coords if c in coord_index}
    return coord_index, maxrow, edges


def reach(edges, start):
    seen, todo = set(), [start]
    while todo:
        x = todo.pop()
        for y in edges[x]:
            if y not in seen:
                seen.add(y)
                todo.append(y)
    return seen


def ref_values(spec, coord_index, maxrow):
    """Reference values of all nodes of an acyclic spec, in layout order."""
    nodes = spec['nodes']
    vals = {}

    def cv(coord):
        i = coord_index.get(coord)
        if i is None:
            return F.BLANK
        return vals[i]

    def num(v):
        return 0 if v is F.BLANK else v
    for i, n in enumerate(nodes):
        if not n.get('f'):
            vals[i] = F.BLANK if n.get('v') is None else n['v']
    for i in sorted(range(len(nodes)), key=lambda j: order_key(nodes[j])):
        n = nodes[i]
        f = n.get('f')
        if not f:
            continue
        k = f['k']
        if 'area' in f:
            av = [cv(c) for c in area_coords(f['area'], maxrow)]
            an = [v for v in av if v is not F.BLANK]
        if k == 'add':
            vals[i] = num(vals[f['a']]) + num(vals[f['b']])
        elif k == 'mul':
            vals[i] = num(vals[f['a']]) * 2
        elif k == 'sum':
            vals[i] = sum(an)
        elif k == 'shared':
            vals[i] = 2 * sum(an)
        elif k == 'sum2':
            vals[i] = sum(an) + num(vals[f['a']])
        elif k == 'max':
            vals[i] = max(an + [0])
        elif k == 'if':
            vals[i] = vals[f['b']] if num(vals[f['a']]) > f['t'] else vals[f['c']]
        elif k == 'index':
            vals[i] = av[0]
        elif k == 'sumif':
            bv = [cv(c) for c in area_coords(f['area2'], maxrow)]
            vals[i] = sum(num(b) for a, b in zip(av, bv) if a is not F.BLANK and a > 0)
        else:
            vals[i] = None
    return vals


def run_spec(spec, rec=None):
    TITLES[:] = spec.get('titles', DEFAULT_TITLES)
    nodes = spec['nodes']
    coord_index, maxrow, edges = analyse(spec)
    cyclic = bool(spec.get('cyclic'))
    model = workbook_of(spec)
    path = wbk.write_xlsx(model)
    fails = []

    def fail(rel, bucket, exp, act, extra=None):
        fails.append({'case': spec, 'expected': exp, 'actual': act, 'relation': rel, 'bucket': bucket, 'extra': extra})
    try:
        def tr(entry=None, style=0):
            def go():
                if entry is None:
                    src = wbk.translate_path(path, entry)
                else:
                    # the entry Cell as callers hand it over: fresh, with a left-over value, or the very object a query returned
                    cell = wbk.Cell(*entry)
                    if style == 1:
                        cell = wbk.Cell(*entry, value=0)
                    elif style == 2 and whole[0] == 'value':
                        cell = whole[1].executor().get_cell(wbk.Cell(*entry))
                    p_ = wbk.Parser().set_excel_file_path(path)
                    p_.disable_safety_check()
                    p_.set_entrypoint_cell(cell)
                    src = p_.get_translation()
                return wbk.Tr(src, wbk.load_source(src))
            return wbk.outcome(go)
        whole = tr()
        formula_nodes = [i for i, n in enumerate(nodes) if n.get('f')]
        on_cycle = set()
        if cyclic:
            for i in formula_nodes:
                if i in reach(edges, i):
                    on_cycle.add(i)
            if whole[0] == 'timeout':
                return fails
            if not (whole[0] == 'lib' and whole[1] in ('E2PyclParserException',)):
                fail('cyclic-workbook-rejected', 'cyclic:whole:' + (whole[1] if whole[0] != 'value' else 'accepted'), 'E2PyclParserException', wbk.show_outcome(whole) if whole[0] != 'value' else 'translated')
                return fails
        else:
            if whole[0] != 'value':
                if whole[0] != 'timeout':
                    fail('acyclic-workbook-translates', 'whole:' + whole[1], 'a class', wbk.show_outcome(whole))
                return fails
            vals = ref_values(spec, coord_index, maxrow)
            wex = whole[1].executor()
        entries = spec.get('entries') or formula_nodes
        for e in entries:
            if rec and rec.out_of_time():
                break
            n = nodes[e]
            r_e = reach(edges, e)
            entry = (TITLES[n['s']], L(n['c']), str(n['r'])) if e % 2 else (n['s'], n['c'] - 1, n['r'] - 1)
            o = tr(entry, e % 3)
            reaches_cycle = cyclic and bool((r_e | {e}) & on_cycle)
            freach = [j for j in r_e if nodes[j].get('f')]
            has_special = any(nodes[j]['s'] != n['s'] for j in r_e) or any('area' in (nodes[j].get('f') or {}) for j in r_e | {e})
            unreached = any(j not in r_e and j != e and (nodes[j].get('f') or nodes[j].get('v') is not None) for j in range(len(nodes)))
            nt = (len(freach) >= 3 and has_special and unreached) if not cyclic else reaches_cycle
            if rec:
                rec.case({'spec': spec, 'entry': e}, nt, ['cyclic' if cyclic else 'acyclic', f'reach:{min(len(freach), 6)}' + ('+' if len(freach) >= 6 else ''),
                                                          'cross-sheet' if any(nodes[j]['s'] != n['s'] for j in r_e) else 'one-sheet',
                                                          'entry:' + ('a1' if e % 2 else 'numeric'), 'entry-cell:' + ['fresh', 'with-value', 'queried'][e % 3]] +
                         sorted({'edge:' + nodes[j]['f']['k'] for j in (r_e | {e}) if nodes[j].get('f')}) +
                         ([f'cycle:{spec["cyclic"]}', 'reaches-cycle' if reaches_cycle else 'avoids-cycle'] if cyclic else []),
                         sample={'workbook': model, 'entry': list(entry), 'reachable_cells': sorted(f"{TITLES[nodes[j]['s']]}!{wbk.a1(nodes[j]['c'], nodes[j]['r'])}" for j in r_e)[:12]})
            if o[0] == 'timeout':
                continue
            if reaches_cycle:
                if not (o[0] == 'lib' and o[1] == 'E2PyclParserException'):
                    fail('cyclic-entry-rejected', 'cyclic:entry:' + (o[1] if o[0] != 'value' else 'accepted'), 'E2PyclParserException',
                         wbk.show_outcome(o) if o[0] != 'value' else 'translated', {'entry': list(entry), 'cycle': spec['cyclic']})
                    return fails
                continue
            if o[0] != 'value':
                fail('entry-translates', 'entry:' + o[1], 'a class', wbk.show_outcome(o), {'entry': list(entry)})
                return fails
            if cyclic:
                continue   # entry avoids the cycle and translated: values have no whole-file partner
            cls = o[1].cls
            eex = o[1].executor()
            for j in sorted(r_e | {e}):
                m = nodes[j]
                uid = wbk.Cell(m['s'], m['c'] - 1, m['r'] - 1).uid
                nonblank = bool(m.get('f')) or m.get('v') is not None
                if nonblank and not callable(getattr(cls, uid, None)):
                    fail('slice-is-closed', 'closure', f'member {uid}', 'missing', {'entry': list(entry), 'cell': f"{TITLES[m['s']]}!{wbk.a1(m['c'], m['r'])}"})
                    return fails
                ve = wbk.outcome(lambda: eex.get_cell(wbk.Cell(m['s'], m['c'] - 1, m['r'] - 1)).value)
                vw = wbk.outcome(lambda: wex.get_cell(wbk.Cell(m['s'], m['c'] - 1, m['r'] - 1)).value)
                exp = vals[j]
                okw = vw[0] == 'value' and F.same_value(exp, vw[1])[0]
                oke = ve[0] == 'value' and F.same_value(exp, ve[1])[0]
                if not okw and vw[0] != 'timeout':
                    fail('whole-file-equals-reference', 'value:whole', F.show_ref(exp), wbk.show_outcome(vw), {'cell': f"{TITLES[m['s']]}!{wbk.a1(m['c'], m['r'])}"})
                    return fails
                if not oke and ve[0] != 'timeout':
                    fail('slice-equals-whole-file', 'value:slice', F.show_ref(exp), wbk.show_outcome(ve), {'entry': list(entry), 'cell': f"{TITLES[m['s']]}!{wbk.a1(m['c'], m['r'])}"})
                    return fails
        if not cyclic and not spec.get('entries'):
            # blank cells are nodes of the graph like any other: a blank cell that an area mentions (or one beyond the used range) is a legal entry,
            # its slice is closed and its value is the blank cell of the whole-file class
            filled = {(n['s'], n['c'], n['r']) for n in nodes if n.get('f') or n.get('v') is not None}
            mentioned = sorted({tuple(c) for i in formula_nodes for c in deps_of(nodes[i], nodes, coord_index, maxrow)[1] if tuple(c) not in filled})
            far = [(s_, max([c for (s2, c, r) in filled if s2 == s_] or [1]) + 3, max([r for (s2, c, r) in filled if s2 == s_] or [1]) + 2) for s_ in range(spec['nsheets'])]
            for bi, (s_, c_, r_) in enumerate(mentioned[:3] + far[:2]):
                entry = (TITLES[s_], L(c_), str(r_)) if bi % 2 else (s_, c_ - 1, r_ - 1)
                o = tr(entry, 0)
                if rec:
                    rec.case({'spec': spec, 'blank-entry': [s_, c_, r_]}, True, ['acyclic', 'entry:blank-cell', 'blank:' + ('mentioned' if bi < len(mentioned[:3]) else 'beyond-used-range')],
                             sample={'workbook': model, 'entry': list(entry)})
                if o[0] == 'timeout':
                    continue
                if o[0] != 'value':
                    fail('blank-entry-translates', 'blank-entry:' + o[1], 'a class', wbk.show_outcome(o), {'entry': list(entry)})
                    return fails
                ve = wbk.outcome(lambda: o[1].executor().get_cell(wbk.Cell(s_, c_ - 1, r_ - 1)).value)
                if not (ve[0] == 'value' and wbk.is_blank(ve[1])):
                    fail('slice-equals-whole-file', 'blank-entry:value', {'$blank': True}, wbk.show_outcome(ve), {'entry': list(entry)})
                    return fails
        return fails
    finally:
        import os
        try:
            os.unlink(path)
        except OSError:
            pass


def run_case(spec):
    if 'ring' in spec:
        return run_ring(spec)
    return run_spec(spec)


def strategy():
    from hypothesis import strategies as st

    @st.composite
    def spec(draw):
        nsheets = draw(st.integers(1, 3))
        # digit-only titles that differ from the sheet's own number, titles that must be quoted
        titles = draw(st.sampled_from(TITLE_SETS))
        TITLES[:] = titles
        nrows = draw(st.integers(3, 6))
        # the whole layout may sit further right: four formula columns that straddle Z / AA (or ZZ / AAA), the data column beyond
        coff = draw(st.sampled_from([0, 0, 0, 22, 23, 24, 25, 48, 698, 700]))
        nodes = []
        # data column F: constants only
        for s in range(nsheets):
            for r in range(1, draw(st.integers(1, 4)) + 1):
                nodes.append({'s': s, 'c': DATA_COL + coff, 'r': r, 'v': draw(st.integers(1, 9))})
        coords = [(r, s, c) for r in range(1, nrows + 1) for s in range(nsheets) for c in range(1 + coff, 5 + coff)]
        chosen = sorted(draw(st.lists(st.sampled_from(coords), min_size=min(8, len(coords)), max_size=min(28, len(coords)), unique=True)))
        placed = []   # indices into nodes in layout order (excluding data column)
        for (r, s, c) in chosen:
            earlier = [i for i in placed]
            kind = draw(st.sampled_from(['const', 'formula', 'formula', 'formula', 'formula', 'formula', 'blank'])) if len(earlier) >= 2 else 'const'
            if kind == 'blank':
                nodes.append({'s': s, 'c': c, 'r': r, 'v': None})
                placed.append(len(nodes) - 1)
                continue
            if kind == 'const':
                nodes.append({'s': s, 'c': c, 'r': r, 'v': draw(st.integers(1, 20))})
                placed.append(len(nodes) - 1)
                continue
            earlier_f = [i for i in earlier if nodes[i].get('f')]
            pick = lambda: draw(st.sampled_from(earlier_f)) if earlier_f and draw(st.integers(0, 9)) < 7 else draw(st.sampled_from(earlier))
            fk = draw(st.sampled_from(['add', 'add', 'mul', 'sum', 'sum', 'sum2', 'max', 'if', 'index', 'shared', 'colsum', 'sumif']))
            if fk == 'colsum':
                f = {'k': 'sum', 'area': {'s': draw(st.integers(0, nsheets - 1)), 'c0': DATA_COL + coff, 'col': True}}
            elif fk == 'sumif' and r > 1:
                # criteria area and a sum range of the same shape, both strictly above this cell (any sheet, any place; row 1 included)
                h, w = draw(st.integers(1, r - 1)), draw(st.integers(1, 4))
                def place():
                    r0_ = draw(st.integers(1, r - h))
                    c0_ = draw(st.integers(1 + coff, 5 + coff - w))
                    return {'s': draw(st.integers(0, nsheets - 1)), 'c0': c0_, 'r0': r0_, 'c1': c0_ + w - 1, 'r1': r0_ + h - 1}
                f = {'k': 'sumif', 'area': place(), 'area2': place()}
            elif fk == 'sumif':
                f = {'k': 'mul', 'a': pick()}
            elif fk in ('sum', 'sum2', 'max', 'index', 'shared'):
                # an area strictly before this cell in layout order: full rows above (any sheet), or the same row to the left on the same sheet
                opts = []
                if r > 1:
                    opts.append('above')
                if c > 1 + coff:
                    opts.append('left')
                if not opts:
                    f = {'k': 'mul', 'a': pick()}
                else:
                    o = draw(st.sampled_from(opts))
                    if o == 'above':
                        s2 = draw(st.integers(0, nsheets - 1))
                        r0 = draw(st.integers(1, r - 1))
                        r1 = draw(st.integers(r0, r - 1))
                        c0 = draw(st.integers(1 + coff, 4 + coff))
                        c1 = draw(st.integers(c0, 4 + coff))
                        area = {'s': s2, 'c0': c0, 'r0': r0, 'c1': c1, 'r1': r1}
                    else:
                        c0 = draw(st.integers(1 + coff, c - 1))
                        area = {'s': s, 'c0': c0, 'r0': r, 'c1': c - 1, 'r1': r}
                    f = {'k': fk, 'area': area}
                    if fk == 'sum2':
                        f['a'] = pick()
            elif fk == 'if':
                f = {'k': 'if', 'a': pick(), 't': draw(st.integers(0, 12)), 'b': pick(), 'c': pick()}
            elif fk == 'add':
                f = {'k': 'add', 'a': pick(), 'b': pick()}
            else:
                f = {'k': 'mul', 'a': pick()}
            nodes.append({'s': s, 'c': c, 'r': r, 'f': f})
            placed.append(len(nodes) - 1)
        out = {'nsheets': nsheets, 'nodes': nodes, 'titles': list(titles)}
        # cyclic variant?
        fnodes = [i for i, n in enumerate(nodes) if n.get('f')]
        if fnodes and draw(st.integers(0, 2)) == 0:
            _, _, edges = analyse(out)
            u = draw(st.sampled_from(fnodes))
            down = sorted(j for j in reach(edges, u) if nodes[j].get('f'))
            how = draw(st.sampled_from(['self', 'back', 'back', 'range', 'if-untaken', 'iferror-guarded', 'iferror-fallback', 'in-function']))
            if how == 'self' or not down:
                v = u
            else:
                v = draw(st.sampled_from(down))
            nu, nv = nodes[u], nodes[v]
            old = formula_text(nv, nodes)[1:]
            target = addr(nu, nv['s'])
            oldidx, oldcoords = deps_of(nv, nodes, None, [6] * nsheets)
            if how == 'range':
                pfx_ = '' if nu['s'] == nv['s'] else pfx(TITLES[nu['s']])
                text = f"={old}+SUM({pfx_}{L(nu['c'])}{nu['r']}:{L(nu['c'] + 1)}{nu['r']})"
            elif how == 'if-untaken':
                text = f"=IF(1>0,{old},{target})"
            elif how == 'iferror-guarded':
                text = f"=IFERROR({old}+{target},0)"
            elif how == 'iferror-fallback':
                text = f"=IFERROR({old},{target})"
            elif how == 'in-function':
                text = f"=ROUND(MAX({old},{target}),0)"
            else:
                text = f"={old}+{target}"
            maxrow = [6] * nsheets
            _, mr, _ = analyse(out)
            nodes[v] = {**nv, 'f': {'k': 'raw', 'text': text, 'deps': oldidx + [u], 'coords': [list(c) for c in area_coords(nv['f']['area'], mr)] if 'area' in nv['f'] else []}}
            out['cyclic'] = how if v != u else 'self'
        return out
    return spec()


NSHARD = 16


def plan(tier):
    n = 120 if tier == 'quick' else 1800
    sizes = list(range(1, 41)) + [48, 64, 65, 80, 100] if tier == 'quick' else list(range(1, 131))
    return [{'kind': 'hyp', 'shard': i, 'examples': n} for i in range(NSHARD)] + \
           [{'kind': 'ring', 'shard': 100 + i, 'sizes': sizes[i::4]} for i in range(4)]


def ring_model(n, via):
    """n formula cells B1..Bn, each referring to the next one, the last one back to the first"""
    cells = {'A1': 1}
    for i in range(1, n + 1):
        nxt = f'B{i + 1}' if i < n else 'B1'
        cells[f'B{i}'] = {'add': f'={nxt}+1', 'sum': f'=SUM({nxt}:{nxt},A1)', 'if': f'=IF(A1>0,{nxt},0)', 'iferror': f'=IFERROR({nxt}+1,0)'}[via]
    cells['C1'] = '=B1*2'
    return {'sheets': [{'title': 'S', 'cells': cells}]}


def run_ring(case, rec=None):
    n, via = case['ring'], case['via']
    path = wbk.write_xlsx(ring_model(n, via))
    fails = []
    try:
        for entry in [None, ('S', 'B', '1'), ('S', 'B', str(max(1, n // 2))), ('S', 'B', str(n)), ('S', 'C', '1')]:
            o = wbk.outcome(lambda: wbk.translate_path(path, entry=entry), timeout=wbk.CALL_TIMEOUT * 4)
            if rec:
                rec.case({'ring': n, 'via': via, 'entry': entry}, n >= 3, ['cyclic', f'cycle:ring:{via}', 'ring:' + ('<=32' if n <= 32 else '>32'), 'reaches-cycle'],
                         sample={'ring': n, 'via': via, 'entry': entry})
            if o[0] == 'timeout':
                continue
            if not (o[0] == 'lib' and o[1] == 'E2PyclParserException'):
                fails.append({'case': case, 'expected': 'E2PyclParserException', 'actual': wbk.show_outcome(o) if o[0] != 'value' else 'translated',
                              'relation': 'cyclic-workbook-rejected', 'bucket': f'ring:{via}:' + (o[1] if o[0] != 'value' else 'accepted'),
                              'extra': {'entry': entry}})
                break
        return fails
    finally:
        try:
            os.unlink(path)
        except OSError:
            pass


def run_shard(spec, rec):
    if spec['kind'] == 'ring':
        for n in spec['sizes']:
            for via in ('add', 'sum', 'if', 'iferror'):
                if rec.out_of_time():
                    return
                for f in run_ring({'ring': n, 'via': via}, rec):
                    rec.fail(**f)
        return

    def body(s):
        for f in run_spec(s, rec):
            rec.fail(**f)
    hyp_run(strategy(), body, spec['examples'], ('c03', spec['shard']), rec)


def shrink_candidates(spec):
    if 'ring' in spec:
        if spec['ring'] > 1:
            yield {**spec, 'ring': spec['ring'] - 1}
        return
    # restrict to the failing entry first, then drop unreferenced nodes from the end
    if not spec.get('entries'):
        fn = [i for i, n in enumerate(spec['nodes']) if n.get('f')]
        for e in fn:
            yield {**spec, 'entries': [e]}
        return
    nodes = spec['nodes']
    _, _, edges = analyse(spec)
    referenced = set().union(*edges.values()) if edges else set()
    for i in range(len(nodes) - 1, -1, -1):
        if i not in referenced and i not in spec['entries'] and all(i not in [f.get(x) for x in ('a', 'b', 'c')] and i not in (f.get('deps') or []) for f in [n.get('f') or {} for n in nodes]):
            # removing node i shifts indices: only allowed for the last node
            if i == len(nodes) - 1:
                yield {**spec, 'nodes': nodes[:i]}
            else:
                n2 = [dict(n) for n in nodes]
                n2[i] = {**n2[i], 'f': None, 'v': None}
                if nodes[i].get('f') or nodes[i].get('v') is not None:
                    yield {**spec, 'nodes': n2}


MATCHERS = {}
