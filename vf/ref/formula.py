"""Independent reference for formulas: JSON AST, renderer (AST -> tokens -> text), Pratt parser over
token lists (configurable precedence, used for alternative groupings and for C05's validity verdict)
and evaluator.  Written from the property statements; shares no code with the product.

AST (JSON lists):
  ['num', text] ['str', s] ['bool', b] ['ref', 'A1'] ['area', 'A1:B2']
  ['un', '-'|'+', x] ['pct', x] ['bin', op, l, r] ['par', x] ['call', NAME, [args]] ['omit']
Tokens: (kind, text) with kind in num str bool ref area func op lp rp sep pct
"""
import datetime
import math
from fractions import Fraction

CMP = ('=', '<>', '<', '<=', '>', '>=')
# precedence levels, higher binds tighter (statement of C01)
PREC = {**{op: 1 for op in CMP}, '&': 2, '+': 3, '-': 3, '*': 4, '/': 4}
UNARY_PREC = 5
PCT_PREC = 6
ATOM_PREC = 7


class Blank:
    def __repr__(self):
        return 'BLANK'


BLANK = Blank()


class Err:
    def __init__(self, code):
        self.code = code

    def __repr__(self):
        return f'Err({self.code})'

    def __eq__(self, other):
        return isinstance(other, Err) and other.code == self.code

    def __hash__(self):
        return hash(self.code)


class OutOfDomain(Exception):
    """The statement does not determine the value of this formula (never a violation)."""


# ------------------------------------------------------------------ structure helpers

def prec_of(ast):
    k = ast[0]
    if k == 'bin':
        return PREC[ast[1]]
    if k == 'un':
        return UNARY_PREC
    if k == 'pct':
        return PCT_PREC
    return ATOM_PREC


def fix_parens(ast):
    """Insert ['par', x] wherever the rendered text would otherwise parse to a different tree."""
    k = ast[0]
    if k == 'bin':
        p = PREC[ast[1]]
        l, r = fix_parens(ast[2]), fix_parens(ast[3])
        if prec_of(l) < p:
            l = ['par', l]
        if prec_of(r) <= p:
            r = ['par', r]
        return ['bin', ast[1], l, r]
    if k == 'un':
        x = fix_parens(ast[2])
        if prec_of(x) < UNARY_PREC:
            x = ['par', x]
        return ['un', ast[1], x]
    if k == 'pct':
        x = fix_parens(ast[1])
        if prec_of(x) < PCT_PREC:
            x = ['par', x]
        return ['pct', x]
    if k == 'par':
        return ['par', fix_parens(ast[1])]
    if k == 'call':
        return ['call', ast[1], [fix_parens(a) for a in ast[2]]]
    return ast


def strip_parens(ast):
    k = ast[0]
    if k == 'par':
        return strip_parens(ast[1])
    if k == 'bin':
        return ['bin', ast[1], strip_parens(ast[2]), strip_parens(ast[3])]
    if k == 'un':
        return ['un', ast[1], strip_parens(ast[2])]
    if k == 'pct':
        return ['pct', strip_parens(ast[1])]
    if k == 'call':
        return ['call', ast[1], [strip_parens(a) for a in ast[2]]]
    return ast


def walk(ast):
    yield ast
    k = ast[0]
    if k == 'bin':
        yield from walk(ast[2])
        yield from walk(ast[3])
    elif k == 'un':
        yield from walk(ast[2])
    elif k in ('pct', 'par'):
        yield from walk(ast[1])
    elif k == 'call':
        for a in ast[2]:
            yield from walk(a)


def depth(ast, kind='par'):
    k = ast[0]
    kids = []
    if k == 'bin':
        kids = [ast[2], ast[3]]
    elif k == 'un':
        kids = [ast[2]]
    elif k in ('pct', 'par'):
        kids = [ast[1]]
    elif k == 'call':
        kids = ast[2]
    d = max([depth(x, kind) for x in kids], default=0)
    return d + (1 if k == kind else 0)


def subtrees_smaller(ast):
    """Shrink candidates for an AST: replace by a child, or shrink a child."""
    k = ast[0]
    if k == 'bin':
        yield ast[2]
        yield ast[3]
        for s in subtrees_smaller(ast[2]):
            yield ['bin', ast[1], s, ast[3]]
        for s in subtrees_smaller(ast[3]):
            yield ['bin', ast[1], ast[2], s]
    elif k == 'un':
        yield ast[2]
        for s in subtrees_smaller(ast[2]):
            yield ['un', ast[1], s]
    elif k in ('pct', 'par'):
        yield ast[1]
        for s in subtrees_smaller(ast[1]):
            yield [k, s]
    elif k == 'call':
        for a in ast[2]:
            if a[0] != 'area':
                yield a
        for i, a in enumerate(ast[2]):
            for s in subtrees_smaller(a):
                yield ['call', ast[1], ast[2][:i] + [s] + ast[2][i + 1:]]
    elif k == 'num':
        if ast[1] not in ('1', '2'):
            yield ['num', '2']
    elif k == 'str':
        if len(ast[1]) > 1:
            yield ['str', ast[1][:1]]
    elif k == 'ref':
        yield ['num', '2']


# ------------------------------------------------------------------ rendering

def tokens(ast):
    k = ast[0]
    if k == 'num':
        return [('num', ast[1])]
    if k == 'str':
        return [('str', '"' + ast[1] + '"')]
    if k == 'bool':
        return [('bool', 'TRUE' if ast[1] else 'FALSE')]
    if k == 'ref':
        return [('ref', ast[1])]
    if k == 'area':
        return [('area', ast[1])]
    if k == 'omit':
        return []
    if k == 'un':
        return [('op', ast[1])] + tokens(ast[2])
    if k == 'pct':
        return tokens(ast[1]) + [('pct', '%')]
    if k == 'bin':
        return tokens(ast[2]) + [('op', ast[1])] + tokens(ast[3])
    if k == 'par':
        return [('lp', '(')] + tokens(ast[1]) + [('rp', ')')]
    if k == 'call':
        out = [('func', ast[1]), ('lp', '(')]
        for i, a in enumerate(ast[2]):
            if i:
                out.append(('sep', ','))
            out += tokens(a)
        return out + [('rp', ')')]
    raise ValueError(ast)


def needs_space(a, b):
    """Must two adjacent tokens be separated so that they stay two tokens?"""
    ka, ta = a
    kb, tb = b
    wordy = ('num', 'bool', 'ref', 'area', 'func')
    if ka in wordy and kb in wordy:
        return True
    if ka == 'op' and kb == 'op':
        return (ta + tb) in ('<>', '<=', '>=')
    return False


def text(toks, gaps=None, lead=''):
    """'=' + tokens.  gaps: list of whitespace strings, gaps[i] goes before token i (default: only where needed)."""
    out = ['=', lead]
    for i, t in enumerate(toks):
        g = gaps[i] if gaps is not None and i < len(gaps) else ''
        if i and not g and needs_space(toks[i - 1], t):
            g = ' '
        out.append(g)
        out.append(t[1])
    return ''.join(out)


def render(ast, gaps=None):
    return text(tokens(fix_parens(ast)), gaps)


# ------------------------------------------------------------------ Pratt parser over token lists

class ParseError(Exception):
    pass


# function table of the supported grammar (Appendix A of DESIGN.md): name -> predicate on the argument list shape.
# argument shapes: 'E' expression, 'M' area token, 'C' single cell, 'O' omitted
def _n(*counts):
    return lambda shapes: len(shapes) in counts and all(s != 'O' for s in shapes)


def _variadic(shapes):
    return len(shapes) >= 1 and all(s != 'O' for s in shapes)


FUNCS = {
    'IF': _n(2, 3), 'IFERROR': _n(2), 'IFS': _variadic,
    'SUM': _variadic, 'AVERAGE': _variadic, 'MIN': _variadic, 'MAX': _variadic, 'COUNT': _variadic,
    'COUNTBLANK': _variadic, 'AND': _variadic, 'OR': _variadic, 'CONCATENATE': _variadic,
    'ROUND': _n(2),
    'ROUNDUP': lambda s: (len(s) in (1, 2) and s[0] != 'O' and all(x != 'O' for x in s[:1])),
    'ROUNDDOWN': lambda s: (len(s) in (1, 2) and s[0] != 'O'),
    'DATE': _n(3), 'DATEDIF': _n(3), 'EDATE': _n(2), 'EOMONTH': _n(2), 'YEAR': _n(1), 'MONTH': _n(1), 'DAY': _n(1),
    'TODAY': lambda s: len(s) == 0,
    'LEFT': _n(1, 2), 'RIGHT': _n(1, 2), 'MID': _n(3), 'SEARCH': _n(2, 3), 'VALUE': _n(1), 'TEXT': _n(2),
    'VLOOKUP': lambda s: len(s) in (3, 4) and s[1] == 'M' and 'O' not in s,
    'MATCH': lambda s: len(s) in (2, 3) and 'O' not in s and (s[1] == 'M' or len(s) == 3),
    'XMATCH': lambda s: len(s) in (2, 3, 4) and s[1] == 'M' and 'O' not in s,
    'INDEX': lambda s: len(s) in (2, 3, 4) and s[0] == 'M' and 'O' not in s,
    'ADDRESS': lambda s: len(s) >= 2 and 'O' not in s,
    'COLUMN': lambda s: len(s) == 0 or (len(s) == 1 and s[0] in ('M', 'C')),
    'NETWORKDAYS': lambda s: (len(s) == 2 and 'O' not in s) or (len(s) == 3 and s[2] == 'M' and 'O' not in s),
    'SUMIF': lambda s: len(s) in (2, 3) and s[0] in ('M', 'C') and 'O' not in s and (len(s) == 2 or s[2] in ('M', 'C')),
    'SUMIFS': lambda s: len(s) >= 3 and len(s) % 2 == 1 and all(s[i] == 'M' for i in range(0, len(s), 2)) and 'O' not in s,
    'AVERAGEIFS': lambda s: len(s) >= 3 and len(s) % 2 == 1 and all(s[i] == 'M' for i in range(0, len(s), 2)) and 'O' not in s,
    'COUNTIFS': lambda s: len(s) >= 2 and len(s) % 2 == 0 and all(s[i] == 'M' for i in range(0, len(s), 2)) and 'O' not in s,
}


class Pratt:
    """Parses a token list into an AST.  `binprec`: op -> level; `right_assoc`: bool;
    `unary_level`: operand of a unary sign is parsed at this minimum level."""

    def __init__(self, toks, binprec=None, right_assoc=False, unary_level=UNARY_PREC, check_funcs=True):
        self.t = list(toks)
        self.i = 0
        self.binprec = binprec or PREC
        self.right_assoc = right_assoc
        self.unary_level = unary_level
        self.check_funcs = check_funcs

    def peek(self):
        return self.t[self.i] if self.i < len(self.t) else (None, None)

    def take(self):
        tok = self.peek()
        self.i += 1
        return tok

    def parse(self):
        if not self.t:
            raise ParseError('empty')
        ast = self.expr(1)
        if self.i != len(self.t):
            raise ParseError(f'trailing tokens at {self.i}')
        return ast

    def expr(self, minlevel):
        left = self.prefix()
        while True:
            k, tx = self.peek()
            if k == 'op' and tx in self.binprec and self.binprec[tx] >= minlevel:
                lvl = self.binprec[tx]
                self.take()
                right = self.expr(lvl if self.right_assoc else lvl + 1)
                left = ['bin', tx, left, right]
                continue
            return left

    def prefix(self):
        k, tx = self.take()
        if k == 'op' and tx in ('-', '+'):
            x = self.expr(self.unary_level)
            return ['un', tx, x]
        return self.postfix_pct(self.atom(k, tx))

    def postfix_pct(self, a):
        # % directly after an atom binds before anything else
        while self.peek()[0] == 'pct':
            self.take()
            a = ['pct', a]
        return a

    def atom(self, k, tx):
        if k == 'num':
            return ['num', tx]
        if k == 'str':
            return ['str', tx[1:-1]]
        if k == 'bool':
            return ['bool', tx == 'TRUE']
        if k == 'ref':
            return ['ref', tx]
        if k == 'area':
            return ['area', tx]
        if k == 'lp':
            x = self.expr(1)
            if self.take()[0] != 'rp':
                raise ParseError('missing )')
            return ['par', x]
        if k == 'func':
            if self.take()[0] != 'lp':
                raise ParseError('function without (')
            args, shapes = [], []
            if self.peek()[0] == 'rp':
                self.take()
            else:
                while True:
                    if self.peek()[0] in ('sep', 'rp'):
                        args.append(['omit'])
                        shapes.append('O')
                    else:
                        a = self.expr(1)
                        args.append(a)
                        shapes.append('M' if a[0] == 'area' else 'C' if a[0] == 'ref' else 'E')
                    k2, _ = self.take()
                    if k2 == 'rp':
                        break
                    if k2 != 'sep':
                        raise ParseError('expected , or )')
            if self.check_funcs:
                if tx not in FUNCS:
                    raise ParseError(f'unsupported function {tx}')
                if not FUNCS[tx](shapes):
                    raise ParseError(f'{tx}: argument list {shapes} not in the grammar')
            return ['call', tx, args]
        raise ParseError(f'unexpected token {k} {tx}')


def parse(toks, **kw):
    return Pratt(toks, **kw).parse()


def alt_parses(toks):
    """ASTs of the same token list under wrong groupings (for the non-triviality rule of C01)."""
    flat = {op: 1 for op in PREC}
    out = {}
    for name, kw in (('flat-left', dict(binprec=flat)), ('right-assoc', dict(right_assoc=True)),
                     ('flat-right', dict(binprec=flat, right_assoc=True)), ('unary-loosest', dict(unary_level=1))):
        try:
            out[name] = parse(toks, check_funcs=False, **kw)
        except (ParseError, RecursionError):
            pass
    return out


# ------------------------------------------------------------------ evaluation

def num_value(text_):
    if text_.isdigit():
        return int(text_)
    return float(text_)


def to_num(v):
    if isinstance(v, Err):
        raise _ErrSignal(v)
    if v is BLANK:
        return 0
    if isinstance(v, bool):
        return int(v)
    if isinstance(v, (int, float)):
        return v
    raise OutOfDomain(f'arithmetic on {type(v).__name__}')


def text_form(v):
    """Text form of a value where Excel and the statement leave no doubt; else OutOfDomain."""
    if isinstance(v, Err):
        raise _ErrSignal(v)
    if isinstance(v, str):
        return v
    if isinstance(v, bool):
        return 'TRUE' if v else 'FALSE'
    if v is BLANK:
        return ''
    if isinstance(v, int):
        if abs(v) >= 10 ** 11:
            raise OutOfDomain('large int text form')
        return str(v)
    if isinstance(v, float):
        if v != v or v in (math.inf, -math.inf):
            raise OutOfDomain('non-finite')
        if abs(v) >= 10 ** 9 or (v != 0 and abs(v) < 1e-4):
            raise OutOfDomain('float text form with an exponent')
        if v == 0:
            return '0'      # also for a minus zero (0/-5): Excel has no -0
        # 15 significant digits, general format: 3/3 -> 1, 0.1+0.2 -> 0.3, 2.50 -> 2.5
        r = '%.15g' % v
        if 'e' in r:
            raise OutOfDomain('float text form with an exponent')
        return r
    raise OutOfDomain(f'text form of {type(v).__name__}')


class _ErrSignal(Exception):
    def __init__(self, err):
        self.err = err


def pct(x):
    return float(f'{x / 100:.15g}')


def compare(op, a, b):
    if isinstance(a, Err):
        raise _ErrSignal(a)
    if isinstance(b, Err):
        raise _ErrSignal(b)

    def kind(v):
        if isinstance(v, bool):
            return 'bool'
        if isinstance(v, (int, float)):
            return 'num'
        if isinstance(v, str):
            return 'text'
        if isinstance(v, datetime.datetime):
            return 'date'
        if v is BLANK:
            return 'blank'
        return '?'
    ka, kb = kind(a), kind(b)
    if ka == 'blank' and kb == 'num':
        a, ka = 0, 'num'
    if kb == 'blank' and ka == 'num':
        b, kb = 0, 'num'
    if ka != kb or ka in ('?', 'blank'):
        raise OutOfDomain(f'comparison of {ka} with {kb}')
    if ka == 'bool' and op not in ('=', '<>'):
        raise OutOfDomain('ordering of booleans')
    if ka == 'num':
        if a != b and (isinstance(a, float) or isinstance(b, float)) and abs(a - b) <= 1e-12 * max(abs(a), abs(b)):
            # 0.05+0.01 against 0.06: the doubles differ in the last bit, Excel (and the library, which normalises to 15 digits
            # around %) call them equal - which one holds is not fixed by the statements
            raise OutOfDomain('comparison of two numbers that differ beyond the 12th significant digit only')
        a, b = Fraction(a), Fraction(b)
    if ka == 'text':
        for s in (a, b):
            if s != s.lower() or not s.isascii():
                raise OutOfDomain('text comparison beyond lower-case ascii')
            try:
                float(s)
                raise OutOfDomain('numeric-looking text')
            except ValueError:
                pass
    c = (a > b) - (a < b)
    return {'=': c == 0, '<>': c != 0, '<': c < 0, '<=': c <= 0, '>': c > 0, '>=': c >= 0}[op]


class Evaluator:
    """env: callable(ref_text) -> value (BLANK when nothing there); funcs: name -> callable(evaluator, args)."""

    def __init__(self, env, funcs=None):
        self.env = env
        self.funcs = dict(BASE_FUNCS)
        if funcs:
            self.funcs.update(funcs)

    def value(self, ast):
        """Top level: returns a value or an Err."""
        try:
            return self.ev(ast)
        except _ErrSignal as e:
            return e.err

    def ev(self, ast):
        k = ast[0]
        if k == 'num':
            return num_value(ast[1])
        if k == 'str':
            return ast[1]
        if k == 'bool':
            return ast[1]
        if k == 'ref':
            return self.env(ast[1])
        if k == 'par':
            return self.ev(ast[1])
        if k == 'un':
            x = to_num(self.ev(ast[2]))
            return -x if ast[1] == '-' else x
        if k == 'pct':
            return pct(to_num(self.ev(ast[1])))
        if k == 'bin':
            op = ast[1]
            a, b = self.ev(ast[2]), self.ev(ast[3])
            if op in CMP:
                return compare(op, a, b)
            if op == '&':
                return text_form(a) + text_form(b)
            a, b = to_num(a), to_num(b)
            if op == '+':
                return a + b
            if op == '-':
                return a - b
            if op == '*':
                return a * b
            if b == 0:
                raise _ErrSignal(Err('#DIV/0!'))
            return a / b
        if k == 'call':
            f = self.funcs.get(ast[1])
            if f is None:
                raise OutOfDomain(f'no reference for {ast[1]}')
            return f(self, ast[2])
        raise OutOfDomain(f'cannot evaluate {k}')

    def lazy(self, ast):
        """value or Err, never raising _ErrSignal (for IFERROR-style containment)."""
        try:
            return self.ev(ast)
        except _ErrSignal as e:
            return e.err


def truth(v):
    if isinstance(v, Err):
        raise _ErrSignal(v)
    if v is BLANK:
        return False
    if isinstance(v, bool):
        return v
    if isinstance(v, (int, float)):
        return v != 0
    raise OutOfDomain('truth value of text')


def f_if(e, args):
    c = truth(e.ev(args[0]))
    if c:
        return e.ev(args[1])
    return e.ev(args[2]) if len(args) > 2 else False


def f_ifs(e, args):
    if len(args) % 2:
        raise OutOfDomain('IFS with odd argument count')
    for i in range(0, len(args), 2):
        if truth(e.ev(args[i])):
            return e.ev(args[i + 1])
    raise _ErrSignal(Err('#N/A'))


def f_iferror(e, args):
    v = e.lazy(args[0])
    if isinstance(v, Err):
        return e.ev(args[1])
    return v


def _flat_numeric_args(e, args):
    out = []
    for a in args:
        if a[0] == 'area':
            raise OutOfDomain('area arguments are evaluated by the property-specific oracles')
        v = e.ev(a)
        if isinstance(v, bool) or not isinstance(v, (int, float)):
            raise OutOfDomain('non-numeric scalar argument of an aggregate')
        out.append(v)
    return out


def f_sum(e, args):
    return sum(_flat_numeric_args(e, args))


def f_max(e, args):
    return max(_flat_numeric_args(e, args))


def f_min(e, args):
    return min(_flat_numeric_args(e, args))


BASE_FUNCS = {'IF': f_if, 'IFS': f_ifs, 'IFERROR': f_iferror, 'SUM': f_sum, 'MAX': f_max, 'MIN': f_min}


# ------------------------------------------------------------------ comparing a product value with a reference value

def same_value(expected, actual, rel=1e-12):
    """expected: reference value; actual: product value (python object).  -> (ok, why)"""
    if isinstance(expected, Err):
        return (isinstance(actual, str) and actual.startswith('#')), 'error value expected'
    if expected is BLANK:
        return type(actual).__name__ == 'EmptyCell', 'blank expected'
    if isinstance(expected, bool):
        return (type(actual) is bool and actual == expected), 'boolean expected'
    if isinstance(expected, (int, float)):
        if isinstance(actual, bool) or not isinstance(actual, (int, float)) or type(actual).__name__ == 'EmptyCell':
            return False, 'number expected'
        if expected == actual:
            return True, ''
        if isinstance(actual, float) and actual != actual:
            return False, 'nan'
        return abs(expected - actual) <= rel * max(abs(expected), abs(actual)), 'numeric tolerance'
    if isinstance(expected, str):
        return (type(actual) is str and actual == expected), 'text expected'
    if isinstance(expected, datetime.datetime):
        return (isinstance(actual, datetime.datetime) and actual == expected), 'date expected'
    return False, f'no comparison for {type(expected).__name__}'


def show_ref(v):
    if v is BLANK:
        return {'$blank': True}
    if isinstance(v, Err):
        return {'$err': v.code}
    if isinstance(v, datetime.datetime):
        return {'$dt': v.isoformat()}
    return v
