"""Shared harness for the "formula value vs reference" properties (C11, C12, C13, C14, C17, C02).

A property module supplies
    build(spec) -> {'sheets': [...], 'queries': [Q, ...], 'overrides': [(title,col,row,value)], 'first_col': int}
where spec is the JSON case (what is hashed, shrunk and replayed) and each Q carries the formula text and the
reference value computed by the module's own oracle.  One workbook per spec.
"""
from . import env
from . import wbk
from .ref import formula as F


class AnyErr:
    """Reference says: an error outcome of any kind (an Excel error string or a failed evaluation)."""

    def __repr__(self):
        return 'AnyErr'


ANY_ERR = AnyErr()


class OneOf:
    """Reference says: any of these (each a value, an Err or ANY_ERR) is acceptable."""

    def __init__(self, *alts):
        self.alts = list(alts)

    def __repr__(self):
        return f'OneOf({self.alts})'


class Q:
    def __init__(self, formula, expected, label, nontrivial=True, tags=(), rel=1e-12, meta=None):
        self.formula, self.expected, self.label = formula, expected, label
        self.nontrivial, self.tags, self.rel, self.meta = nontrivial, list(tags), rel, meta


def show_expected(e):
    if e is ANY_ERR:
        return {'$anyerr': True}
    if isinstance(e, OneOf):
        return {'$oneof': [show_expected(x) for x in e.alts]}
    if isinstance(e, list):
        return [show_expected(x) for x in e]
    return F.show_ref(e)


def agrees(expected, o, rel=1e-12):
    """-> (ok, why)"""
    if o[0] == 'timeout':
        return True, 'timeout (inconclusive)'
    if isinstance(expected, OneOf):
        whys = []
        for alt in expected.alts:
            ok, why = agrees(alt, o, rel)
            if ok:
                return True, ''
            whys.append(why)
        return False, ' / '.join(whys)
    if expected is ANY_ERR:
        if o[0] in ('foreign', 'lib'):
            return True, ''
        return (isinstance(o[1], str) and o[1].startswith('#')), 'an error outcome expected'
    if isinstance(expected, F.Err):
        if o[0] == 'value':
            return (isinstance(o[1], str) and o[1] == expected.code), f'error value {expected.code} expected'
        # a failed evaluation is the library's convention for arithmetic errors
        return expected.code in ('#DIV/0!',), f'error value {expected.code} expected, evaluation raised'
    if o[0] != 'value':
        return False, f'evaluation raised {o[1]}'
    if isinstance(expected, list):
        a = o[1]
        if not isinstance(a, list) or len(a) != len(expected):
            return False, 'list shape'
        for e, x in zip(expected, a):
            ok, why = agrees(e, ('value', x), rel)
            if not ok:
                return False, why
        return True, ''
    return F.same_value(expected, o[1], rel)


def run_spec(prop, spec, rec=None):
    """Evaluate one spec; returns failures.  Registers cases in rec when given."""
    b = prop.build(spec)
    qs = b['queries']
    if not qs:
        if rec:
            rec.count('spec_without_queries')
        return []
    outs = wbk.eval_formulas(b['sheets'], [q.formula for q in qs], sheet=b.get('sheet', b['sheets'][0]['title']),
                             first_col=b.get('first_col', 12), ncols=b.get('ncols', 6), overrides=b.get('overrides'), on=b.get('on'),
                             mode=b.get('mode', 'whole'))
    fails = []
    for i, (q, o) in enumerate(zip(qs, outs)):
        if rec:
            rec.case({'spec': spec, 'q': i}, q.nontrivial, q.tags,
                     sample={'formula': q.formula, 'expected': show_expected(q.expected),
                             'cells': b['sheets'][0]['cells'] if len(str(b['sheets'][0]['cells'])) < 600 else '(large)',
                             'label': q.label})
        ok, why = agrees(q.expected, o, q.rel)
        if not ok:
            bucket = q.label if o[0] == 'value' else f'{q.label}:raises:{o[1]}'
            fails.append({'case': spec, 'expected': show_expected(q.expected), 'actual': wbk.show_outcome(o),
                          'relation': getattr(prop, 'RELATION', 'reference-model'), 'bucket': bucket,
                          'extra': {'formula': q.formula, 'why': why, 'label': q.label, 'meta': q.meta, 'query_index': i}})
    return fails


def hyp_shard(prop, strategy, spec, rec):
    from .run import hyp_run

    def body(s):
        for f in run_spec(prop, s, rec):
            rec.fail(**f)
    hyp_run(strategy, body, spec['examples'], (prop.ID, spec['shard']), rec)
