"""Locate the repository under test, temp dirs, seeds.  Imported first by everything."""
import atexit
import hashlib
import os
import shutil
import sys
import tempfile
import warnings

VERIF = os.path.dirname(os.path.dirname(os.path.abspath(__file__)))
REPO = os.path.realpath(os.environ.get('VERIF_REPO', '/repo'))
SEED = int(os.environ.get('VERIF_SEED', '1') or '1')
GUARD = 'EXCEL2PYCL_VERIF'

sys.dont_write_bytecode = True
warnings.filterwarnings('ignore', category=SyntaxWarning)
warnings.filterwarnings('ignore', category=DeprecationWarning)
warnings.filterwarnings('ignore', category=UserWarning, module='openpyxl')


class HarnessError(Exception):
    """Anything that is the harness' fault: exit code 2, never a VIOLATION."""


def setup_path():
    if sys.path[0] != REPO:
        sys.path.insert(0, REPO)
    os.environ[GUARD] = '1'
    import excel2pycl
    got = os.path.realpath(excel2pycl.__file__)
    if not got.startswith(REPO + os.sep):
        raise HarnessError(f'excel2pycl imported from {got}, expected under {REPO}')
    return excel2pycl


_TMP = None
_TMP_PID = None


def tmpdir() -> str:
    """Per-process scratch directory (removed at exit of the creating process;
    worker directories live inside the parent's and go with it)."""
    global _TMP, _TMP_PID
    if _TMP is None or _TMP_PID != os.getpid():
        base = os.environ.get('VF_TMP_PARENT')
        _TMP = tempfile.mkdtemp(prefix='vf-', dir=base if base and os.path.isdir(base) else None)
        _TMP_PID = os.getpid()
        if not base:
            os.environ['VF_TMP_PARENT'] = _TMP
            path, pid = _TMP, _TMP_PID

            def _rm():
                if os.getpid() == pid:
                    shutil.rmtree(path, ignore_errors=True)
            atexit.register(_rm)
    return _TMP


def derive_seed(*parts) -> int:
    h = hashlib.sha256(':'.join(str(p) for p in (SEED,) + parts).encode()).hexdigest()
    return int(h[:12], 16)


def chash(obj) -> str:
    import json
    return hashlib.sha1(json.dumps(obj, sort_keys=True, default=repr, ensure_ascii=True).encode()).hexdigest()[:16]
