"""known_findings.txt: parser + attribution.  The file is committed and never written at run time.

open:  property=C01 id=F-... matcher=<name> witness=<json case> :: what fails
fixed: property=C05 <commit> id=F-... :: what failed

A failure is attributed to an open finding iff the property module's matcher of that
name returns True for the failure (structural trigger in the case AND the outcome the
defect produces)."""
import json
import os
import re

from . import env

PATH = os.path.join(env.VERIF, 'known_findings.txt')
_LINE = re.compile(r'^(open|fixed):\s+property=(\S+)\s+(.*?)\s+::\s+(.*)$')
_OPEN = re.compile(r'^id=(\S+)\s+matcher=(\S+)\s+witness=(.*)$')


def load(prop_id):
    open_f, fixed_f = [], []
    if not os.path.exists(PATH):
        return open_f, fixed_f
    with open(PATH, encoding='utf-8') as f:
        for ln, line in enumerate(f, 1):
            line = line.rstrip('\n')
            if not line.strip() or line.lstrip().startswith('#'):
                continue
            m = _LINE.match(line)
            if not m:
                raise env.HarnessError(f'known_findings.txt:{ln}: cannot parse')
            kind, pid, mid, text = m.groups()
            if pid != prop_id:
                continue
            if kind == 'open':
                mo = _OPEN.match(mid)
                if not mo:
                    raise env.HarnessError(f'known_findings.txt:{ln}: open entry needs id= matcher= witness=')
                open_f.append({'id': mo.group(1), 'matcher': mo.group(2), 'witness': json.loads(mo.group(3)),
                               'text': text, 'property': pid})
            else:
                fixed_f.append({'mid': mid, 'text': text, 'property': pid})
    return open_f, fixed_f


def matches(prop, finding, failure) -> bool:
    fn = getattr(prop, 'MATCHERS', {}).get(finding['matcher'])
    if fn is None:
        raise env.HarnessError(f'finding {finding["id"]} names unknown matcher {finding["matcher"]}')
    try:
        return bool(fn(failure))
    except Exception:
        return False
