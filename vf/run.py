"""CLI + driver: shards over processes, merge, findings attribution, shrink, evidence, exit codes.

    python -m vf.run <ID> quick|thorough
    python -m vf.run --replay <file>

exit 0: property held on everything explored (known findings are printed as KNOWN-FINDING lines)
exit 1: `VIOLATION property=<id> replay=<path>` printed
exit 2: harness error (never a verdict)
"""
import collections
import importlib
import json
import multiprocessing
import os
import sys
import time
import traceback

from . import env
from . import findings as findings_mod

MAX_SAMPLES = 6
MAX_FAILS_KEPT = 3000
MAX_PER_BUCKET = 12


class Recorder:
    """Per-shard collector; merged by the driver in shard order."""

    def __init__(self, prop_id, tier, shard, deadline):
        self.prop_id, self.tier, self.shard, self.deadline = prop_id, tier, shard, deadline
        self.evaluations = 0
        self.nontrivial = set()
        self.samples = []
        self.classes = collections.Counter()
        self.counters = collections.Counter()
        self.failures = []
        self._per_bucket = {}
        self.budget_exhausted = False
        self.exhaustive = None

    def out_of_time(self) -> bool:
        if time.time() > self.deadline:
            self.budget_exhausted = True
            return True
        return False

    def case(self, case, nontrivial, classes=(), n=1, sample=None):
        """Register one executed case. `case` must be JSON-able."""
        self.evaluations += n
        for c in classes:
            self.classes[c] += 1
        if nontrivial:
            self.nontrivial.add(env.chash(case))
            if len(self.samples) < MAX_SAMPLES:
                self.samples.append(sample if sample is not None else case)

    def bulk(self, evaluations, nontrivial_hashes, classes=None):
        self.evaluations += evaluations
        self.nontrivial.update(nontrivial_hashes)
        if classes:
            self.classes.update(classes)

    def count(self, key, n=1):
        self.counters[key] += n

    def fail(self, case, expected, actual, relation, bucket=None, extra=None):
        self.counters['failures_seen'] += 1
        b = bucket or relation
        self.counters['failed:' + str(b)[:80]] += 1
        self._per_bucket[b] = self._per_bucket.get(b, 0) + 1
        if self._per_bucket[b] <= MAX_PER_BUCKET and len(self.failures) < MAX_FAILS_KEPT:
            self.failures.append({'case': case, 'expected': expected, 'actual': actual, 'relation': relation,
                                  'bucket': bucket or relation, 'extra': extra, 'shard': self.shard})

    def export(self):
        return {'shard': self.shard, 'evaluations': self.evaluations, 'nontrivial': sorted(self.nontrivial),
                'samples': self.samples, 'classes': dict(self.classes), 'counters': dict(self.counters),
                'failures': self.failures, 'budget_exhausted': self.budget_exhausted,
                'exhaustive': self.exhaustive}


def hyp_run(strategy, body, examples, seed_parts, rec=None):
    """Run `body(example)` on `examples` generated values; deterministic in VERIF_SEED; never stops at a failure
    (bodies collect failures in the Recorder).  No shrink phase: shrinking is done by the driver."""
    import hypothesis
    from hypothesis import given, settings, HealthCheck, Phase

    @hypothesis.seed(env.derive_seed(*seed_parts))
    @settings(max_examples=examples, database=None, deadline=None, derandomize=False,
              phases=[Phase.generate], report_multiple_bugs=False,
              suppress_health_check=list(HealthCheck))
    @given(strategy)
    def t(x):
        if rec is not None and rec.out_of_time():
            return
        body(x)
    t()


def _worker(args):
    prop_name, tier, spec, deadline = args
    try:
        prop = importlib.import_module(f'vf.props.{prop_name}')
        rec = Recorder(prop.ID, tier, spec.get('shard', 0), deadline)
        prop.run_shard(spec, rec)
        return rec.export()
    except env.HarnessError as e:
        return {'harness_error': f'{e}', 'shard': spec.get('shard', 0)}
    except BaseException:  # noqa
        return {'harness_error': traceback.format_exc(), 'shard': spec.get('shard', 0)}


def _rerun_shard(prop_name, tier, spec):
    ctx = multiprocessing.get_context('spawn')
    with ctx.Pool(1) as pool:
        r = pool.map(_worker, [(prop_name, tier, spec, time.time() + 3600)])[0]
    if 'harness_error' in r:
        return None
    return r['failures']


def json_size(x):
    return len(json.dumps(x, default=repr))


def generic_shrinks(x):
    """Yield structurally smaller variants of a JSON value (lists shorter, ints nearer 0, strings shorter)."""
    if isinstance(x, list):
        for i in range(len(x)):
            yield x[:i] + x[i + 1:]
        for i, v in enumerate(x):
            for s in generic_shrinks(v):
                yield x[:i] + [s] + x[i + 1:]
    elif isinstance(x, dict):
        for k in list(x):
            for s in generic_shrinks(x[k]):
                y = dict(x)
                y[k] = s
                yield y
    elif isinstance(x, bool):
        return
    elif isinstance(x, int):
        for c in (0, 1, x // 2, x - 1 if x > 0 else x + 1):
            if abs(c) < abs(x):
                yield c
    elif isinstance(x, float):
        for c in (0.0, 1.0, float(int(x)), round(x, 1)):
            if c != x and abs(c) <= abs(x):
                yield c
    elif isinstance(x, str):
        for i in range(len(x)):
            yield x[:i] + x[i + 1:]


def shrink(prop, fail, budget_s=60, max_steps=400):
    """Greedy shrink of fail['case'] keeping the same bucket."""
    t0 = time.time()
    best = fail
    cand_fn = getattr(prop, 'shrink_candidates', None) or generic_shrinks
    steps = 0
    improved = True
    while improved and time.time() - t0 < budget_s and steps < max_steps:
        improved = False
        for cand in cand_fn(best['case']):
            if time.time() - t0 > budget_s or steps >= max_steps:
                break
            steps += 1
            try:
                fs = prop.run_case(cand)
            except env.HarnessError:
                continue
            except Exception:  # candidate outside the generator's domain
                continue
            fs = [f for f in (fs or []) if f['bucket'] == best['bucket']]
            if fs and json_size(fs[0]['case']) < json_size(best['case']):
                best = fs[0]
                improved = True
                break
    return best


def write_evidence(prop, tier, merged, wall, violations, notes):
    cov = {
        'evaluations': merged['evaluations'],
        'distinct_nontrivial': len(merged['nontrivial']),
        'rule': prop.RULE,
        'samples': merged['samples'][:MAX_SAMPLES],
        'class_histogram': dict(sorted(merged['classes'].items())),
        'counters': dict(sorted(merged['counters'].items())),
        'excluded_by_finding': dict(sorted(merged['by_finding'].items())),
        'budget_exhausted': merged['budget_exhausted'],
        'shards': merged['shards'],
    }
    if merged.get('exhaustive') is not None:
        cov['exhaustive'] = bool(merged['exhaustive'])
    if notes:
        cov['notes'] = notes
    ev = {'property_id': prop.ID, 'tier': tier, 'seed': env.SEED, 'level': getattr(prop, 'LEVEL', 'exploration'),
          'coverage': cov, 'assumptions': list(getattr(prop, 'ASSUMPTIONS', [])), 'wall_s': round(wall, 2),
          'violations': violations}
    edir = os.environ.get('VF_EVIDENCE_DIR') or os.path.join(env.VERIF, 'evidence')
    os.makedirs(edir, exist_ok=True)
    path = os.path.join(edir, f'{prop.ID}.json')
    tmp = path + '.tmp'
    with open(tmp, 'w') as f:
        json.dump(ev, f, indent=1, default=repr, sort_keys=True)
    os.replace(tmp, path)
    return path


def write_replay(prop, tier, fail):
    d = os.environ.get('VF_REPLAY_DIR') or os.path.join(env.VERIF, 'replays')
    os.makedirs(d, exist_ok=True)
    path = os.path.join(d, f'{prop.ID}-{env.chash(fail["case"])}.json')
    with open(path, 'w') as f:
        json.dump({'property': prop.ID, 'engine': prop.__name__, 'seed': env.SEED, 'tier': tier,
                   'case': fail['case'], 'expected': fail['expected'], 'actual': fail['actual'],
                   'relation': fail['relation'], 'bucket': fail['bucket'], 'extra': fail.get('extra'),
                   **({'shard_spec': fail['shard_spec']} if fail.get('shard_spec') else {})},
                  f, indent=1, default=repr)
    return path


def regress_cases(prop_id):
    d = os.path.join(env.VERIF, 'regress', prop_id)
    out = []
    if os.path.isdir(d):
        for fn in sorted(os.listdir(d)):
            if fn.endswith('.json'):
                with open(os.path.join(d, fn)) as f:
                    out.append((fn, json.load(f)))
    return out


def run_property(prop_name, tier):
    t0 = time.time()
    prop = importlib.import_module(f'vf.props.{prop_name}')
    pid = prop.ID
    budget = prop.BUDGET_S[tier]
    deadline = t0 + budget
    open_f, fixed_f = findings_mod.load(pid)
    env.tmpdir()    # exported as VF_TMP_PARENT: the workers' scratch directories live inside and go with it
    rdir = os.environ.get('VF_REPLAY_DIR') or os.path.join(env.VERIF, 'replays')
    if os.path.isdir(rdir):
        for fn in os.listdir(rdir):
            if fn.startswith(pid + '-'):
                os.unlink(os.path.join(rdir, fn))
    notes = []
    violations = []
    by_finding = collections.Counter()

    # 1. replay witnesses of open findings: still failing -> KNOWN-FINDING line
    active = []
    for f in open_f:
        fs = prop.run_case(f['witness'])
        hit = [x for x in (fs or []) if findings_mod.matches(prop, f, x)]
        if hit:
            print(f'KNOWN-FINDING: property={pid} {f["id"]} {f["text"]}')
            active.append(f)
            by_finding[f['id']] += 0
        else:
            notes.append(f'open finding {f["id"]} did not reproduce on this tree (witness passes or fails differently)')
            print(f'NOTE: open finding {f["id"]} does not reproduce on this tree')
            for x in fs or []:
                violations.append(x)

    # 2. regression corpus (must pass; includes witnesses of fixed findings)
    n_reg = 0
    for fn, rc in regress_cases(pid):
        n_reg += 1
        for x in prop.run_case(rc['case']) or []:
            if not any(findings_mod.matches(prop, f, x) for f in active):
                x = dict(x)
                x['extra'] = {'regress_file': fn, **(x.get('extra') or {})}
                violations.append(x)

    # 3. the search
    # the small enumerated lanes go first, so that they are never the ones a loaded machine's time budget cuts off
    specs = sorted(prop.plan(tier), key=lambda s: 'examples' in s)
    nproc = min(int(os.environ.get('VF_PROCS', '16')), max(1, len(specs)))
    args = [(prop_name, tier, s, deadline) for s in specs]
    if nproc == 1 and os.environ.get('VF_INPROCESS') == '1':
        results = [_worker(a) for a in args]
    else:
        # one fresh interpreter per shard: what a shard sees of the product's process-global state must not depend on
        # which other shards the same worker happened to run before (a shard is a pure function of tree and seed)
        ctx = multiprocessing.get_context('spawn')
        with ctx.Pool(nproc, maxtasksperchild=1) as pool:
            try:
                # a worker that dies (killed for memory, hard crash) loses its task and map() would wait for ever
                results = pool.map_async(_worker, args, chunksize=1).get(timeout=budget * 3 + 900)
            except multiprocessing.TimeoutError:
                pool.terminate()
                print(f'HARNESS-ERROR property={pid}: shards did not come back within {budget * 3 + 900}s (a worker was lost or a '
                      f'product call cannot be interrupted)', file=sys.stderr)
                return 2

    merged = {'evaluations': 0, 'nontrivial': set(), 'samples': [], 'classes': collections.Counter(),
              'counters': collections.Counter(), 'budget_exhausted': False, 'shards': len(specs),
              'by_finding': by_finding, 'exhaustive': None}
    fails = []
    for r in results:
        if 'harness_error' in r:
            print(f'HARNESS-ERROR property={pid} shard={r["shard"]}\n{r["harness_error"]}', file=sys.stderr)
            return 2
        merged['evaluations'] += r['evaluations']
        merged['nontrivial'].update(r['nontrivial'])
        for s in r['samples']:
            if len(merged['samples']) < MAX_SAMPLES:
                merged['samples'].append(s)
        merged['classes'].update(r['classes'])
        merged['counters'].update(r['counters'])
        merged['budget_exhausted'] |= r['budget_exhausted']
        if r['exhaustive'] is not None:
            merged['exhaustive'] = r['exhaustive'] if merged['exhaustive'] is None else (merged['exhaustive'] and r['exhaustive'])
        fails.extend(r['failures'])
    merged['counters']['regress_cases_replayed'] = n_reg
    if merged['budget_exhausted'] and merged['exhaustive']:
        merged['exhaustive'] = False

    # 4. attribute failures
    unattributed = []
    for x in fails:
        owner = next((f for f in active if findings_mod.matches(prop, f, x)), None)
        if owner:
            by_finding[owner['id']] += 1
        else:
            unattributed.append(x)

    # 5. confirm + shrink one representative per bucket
    buckets = collections.OrderedDict()
    for x in sorted(unattributed, key=lambda y: json_size(y['case'])):
        buckets.setdefault(x['bucket'], x)
    shrink_t0 = time.time()
    shrink_total = 45 if tier == 'quick' else 300
    for b, x in buckets.items():
        again = prop.run_case(x['case'])
        again = [y for y in (again or []) if not any(findings_mod.matches(prop, f, y) for f in active)]
        if not again:
            # the case passes when run alone: the failure may depend on what the process did before (process-global state
            # of the product is part of several properties).  Re-run the whole shard in a fresh process: the shard is a
            # pure function of (tree, seed), so a real history-dependent failure shows up again.
            spec = next((s_ for s_ in specs if s_.get('shard', 0) == x.get('shard')), None)
            rerun = _rerun_shard(prop_name, tier, spec) if spec is not None else None
            same = [y for y in (rerun or []) if y['bucket'] == b and env.chash(y['case']) == env.chash(x['case'])]
            if same:
                y = dict(same[0])
                y['extra'] = {**(y.get('extra') or {}), 'history_dependent': True,
                              'note': 'passes when run alone; reproduced by re-running the shard from its start in a fresh process'}
                y['shard_spec'] = spec
                violations.append(y)
                continue
            print(f'HARNESS-ERROR property={pid}: failure in bucket {b} did not reproduce in isolation: '
                  f'{json.dumps(x, default=repr)[:1500]}', file=sys.stderr)
            write_evidence(prop, tier, merged, time.time() - t0, 0, notes + ['unreproducible failure: ' + b])
            return 2
        y = next((z for z in again if z['bucket'] == b), again[0])
        if os.environ.get('VF_NO_SHRINK') != '1' and time.time() - shrink_t0 < shrink_total:
            y = shrink(prop, y, budget_s=min(15 if tier == 'quick' else 60, shrink_total - (time.time() - shrink_t0)))
        violations.append(y)

    if hasattr(prop, 'evidence_notes'):
        notes.extend(prop.evidence_notes(merged))
    if merged['evaluations'] < 1 or len(merged['nontrivial']) < 2:
        print(f'HARNESS-ERROR property={pid}: vacuous run (evaluations={merged["evaluations"]}, '
              f'nontrivial={len(merged["nontrivial"])})', file=sys.stderr)
        return 2
    write_evidence(prop, tier, merged, time.time() - t0, len(violations), notes)
    hist = ', '.join(f'{k}={v}' for k, v in sorted(merged['classes'].items())[:40])
    print(f'{pid} {tier} seed={env.SEED}: evaluations={merged["evaluations"]} '
          f'distinct_nontrivial={len(merged["nontrivial"])} attributed={dict(by_finding)} '
          f'violations={len(violations)} budget_exhausted={merged["budget_exhausted"]} '
          f'wall={time.time() - t0:.1f}s')
    if hist:
        print(f'  classes: {hist}')
    if violations:
        for v in violations:
            path = write_replay(prop, tier, v)
            print(f'  bucket={v["bucket"]} relation={v["relation"]} expected={json.dumps(v["expected"], default=repr)[:300]} '
                  f'actual={json.dumps(v["actual"], default=repr)[:300]}')
            print(f'VIOLATION property={pid} replay={os.path.relpath(path, env.VERIF) if not os.environ.get("VF_REPLAY_DIR") else path}')
        return 1
    return 0


def replay(path):
    with open(path) as f:
        r = json.load(f)
    prop = importlib.import_module(r.get('engine') or f'vf.props.{r["property"].lower()}')
    if r.get('shard_spec'):
        # history-dependent failure: the reproduction unit is the shard from its start
        fs = _rerun_shard(prop.__name__.split('.')[-1], r.get('tier', 'quick'), r['shard_spec']) or []
        fs = [y for y in fs if y['bucket'] == r['bucket'] and env.chash(y['case']) == env.chash(r['case'])]
    else:
        fs = prop.run_case(r['case'])
    open_f, _ = findings_mod.load(prop.ID)
    if not fs:
        print(f'replay {path}: case passes on this tree')
        return 0
    for x in fs:
        owner = next((f for f in open_f if findings_mod.matches(prop, f, x)), None)
        print(f'  relation={x["relation"]} expected={json.dumps(x["expected"], default=repr)[:400]} '
              f'actual={json.dumps(x["actual"], default=repr)[:400]}' + (f' [known finding {owner["id"]}]' if owner else ''))
    if all(any(findings_mod.matches(prop, f, x) for f in open_f) for x in fs):
        print(f'KNOWN-FINDING: property={prop.ID} (replayed case is covered by an open finding)')
        return 0
    print(f'VIOLATION property={prop.ID} replay={path}')
    return 1


def main(argv):
    try:
        if len(argv) >= 2 and argv[0] == '--replay':
            return replay(argv[1])
        if len(argv) >= 3 and argv[1] == '--replay':
            return replay(argv[2])
        pid = argv[0]
        tier = argv[1] if len(argv) > 1 else os.environ.get('VERIF_TIER', 'quick')
        if tier not in ('quick', 'thorough'):
            raise env.HarnessError(f'unknown tier {tier}')
        return run_property(pid.lower(), tier)
    except env.HarnessError as e:
        print(f'HARNESS-ERROR {e}', file=sys.stderr)
        return 2
    except Exception:
        traceback.print_exc()
        return 2


if __name__ == '__main__':
    sys.exit(main(sys.argv[1:]))
