"""Sensitivity driver: runs the registered checks against the seeded changes in seeded/<PID>-<k>/.

    python3 tools/seeded.py [ids...] [--tier quick] [--jobs 3] [--checks C01,C05]

For each seeded change: scratch worktree of /repo HEAD under a temp dir, `git apply patch.diff`, pinned tests (must pass),
demo.py with PYTHONPATH=<worktree> (must fail) and against /repo (must pass), then `./check <PID> <tier>` with
VERIF_REPO=<worktree> (evidence / replays redirected to the temp dir).  Writes seeded/<id>/result.json and prints a table.
The worktree is removed afterwards.  Nothing is ever applied to /repo itself."""
import concurrent.futures
import json
import os
import shutil
import subprocess
import sys
import tempfile
import time

VERIF = os.path.dirname(os.path.dirname(os.path.abspath(__file__)))
REPO = '/repo'
PY = '/venv/bin/python'


def sh(cmd, cwd=None, env=None, timeout=3600):
    e = dict(os.environ)
    e.update(env or {})
    e['PYTHONDONTWRITEBYTECODE'] = '1'
    p = subprocess.run(cmd, cwd=cwd, env=e, shell=isinstance(cmd, str), stdout=subprocess.PIPE, stderr=subprocess.STDOUT,
                       text=True, timeout=timeout)
    return p.returncode, p.stdout


def run_one(sid, tier, checks, procs):
    d = os.path.join(VERIF, 'seeded', sid)
    pid = sid.split('-')[0]
    tmp = tempfile.mkdtemp(prefix=f'seeded-{sid}-')
    wt = os.path.join(tmp, 'wt')
    res = {'id': sid, 'property': pid, 'tier': tier}
    try:
        rc, out = sh(['git', '-C', REPO, 'worktree', 'add', '--detach', wt, 'HEAD'])
        if rc:
            res['error'] = 'worktree: ' + out[-300:]
            return res
        res['repo_head'] = sh(['git', '-C', REPO, 'rev-parse', '--short', 'HEAD'])[1].strip()
        rc, out = sh(['git', '-C', wt, 'apply', '--3way', os.path.join(d, 'patch.diff')])
        if rc:
            rc, out = sh(['git', '-C', wt, 'apply', os.path.join(d, 'patch.diff')])
        res['applies'] = rc == 0
        if rc:
            res['error'] = 'apply: ' + out[-300:]
            return res
        rc, out = sh(f'{PY} -m pytest -q -p no:cacheprovider --timeout=900 --continue-on-collection-errors 2>&1 | tail -3', cwd=wt,
                     env={'PYTHONPATH': wt})
        res['pinned_tests_pass'] = ' passed' in out and 'failed' not in out and 'error' not in out.lower().replace('continue-on-collection-errors', '')
        res['pinned_tail'] = out.strip().splitlines()[-1] if out.strip() else ''
        rc, out = sh([PY, os.path.join(d, 'demo.py')], cwd=tmp, env={'PYTHONPATH': wt}, timeout=600)
        res['demo_fails_with_change'] = rc != 0
        rc, out = sh([PY, os.path.join(d, 'demo.py')], cwd=tmp, env={'PYTHONPATH': REPO}, timeout=600)
        res['demo_passes_without'] = rc == 0
        res['checks'] = {}
        for c in checks or [pid]:
            t0 = time.time()
            rc, out = sh([os.path.join(VERIF, 'check'), c, tier], cwd=VERIF,
                         env={'VERIF_REPO': wt, 'VF_EVIDENCE_DIR': os.path.join(tmp, 'ev'), 'VF_REPLAY_DIR': os.path.join(tmp, 'rp'),
                              'VF_PROCS': str(procs), 'VF_NO_SHRINK': os.environ.get('VF_NO_SHRINK', '1')}, timeout=7200)
            lines = [l for l in out.splitlines() if l.startswith('VIOLATION') or l.strip().startswith('bucket=') or 'HARNESS' in l]
            res['checks'][c] = {'exit': rc, 'wall_s': round(time.time() - t0, 1), 'lines': lines[:8]}
            if rc not in (0, 1):
                res['checks'][c]['tail'] = [l[:300] for l in out.splitlines() if 'classes:' not in l][-30:]
        return res
    except subprocess.TimeoutExpired as e:
        res['error'] = f'timeout {e}'
        return res
    finally:
        sh(['git', '-C', REPO, 'worktree', 'remove', '--force', wt])
        shutil.rmtree(tmp, ignore_errors=True)
        sh(['git', '-C', REPO, 'worktree', 'prune'])


def main(argv):
    tier, jobs, checks, ids = 'quick', 3, None, []
    i = 0
    while i < len(argv):
        a = argv[i]
        if a == '--tier':
            tier = argv[i + 1]; i += 2
        elif a == '--jobs':
            jobs = int(argv[i + 1]); i += 2
        elif a == '--checks':
            checks = argv[i + 1].split(','); i += 2
        else:
            ids.append(a); i += 1
    if not ids:
        ids = sorted(x for x in os.listdir(os.path.join(VERIF, 'seeded')) if os.path.isdir(os.path.join(VERIF, 'seeded', x)))
    procs = max(4, 16 // jobs)
    with concurrent.futures.ThreadPoolExecutor(jobs) as ex:
        futs = {ex.submit(run_one, s, tier, checks, procs): s for s in ids}
        for f in concurrent.futures.as_completed(futs):
            r = f.result()
            path = os.path.join(VERIF, 'seeded', r['id'], 'result.json')
            old = {}
            if os.path.exists(path):
                old = json.load(open(path))
            hist = old.get('history', [])
            if old and 'history' in old:
                pass
            merged = dict(r)
            if checks and old.get('checks'):
                merged['checks'] = {**old['checks'], **r.get('checks', {})}
            json.dump(merged, open(path, 'w'), indent=1)
            ck = ' '.join(f'{c}:exit={v["exit"]}({v["wall_s"]}s)' for c, v in (r.get('checks') or {}).items())
            print(f'{r["id"]}: applies={r.get("applies")} tests={r.get("pinned_tests_pass")} demo_fails={r.get("demo_fails_with_change")} '
                  f'demo_ok_pristine={r.get("demo_passes_without")} {ck} {r.get("error", "")}', flush=True)


if __name__ == '__main__':
    main(sys.argv[1:])
