"""Writes seeded/<id>/meta.json from notes.md + result.json and seeded/README.md (the table of which checks catch which changes)."""
import json
import os
import re

VERIF = os.path.dirname(os.path.dirname(os.path.abspath(__file__)))
# changes that are no longer (or never were) a breach of their property on the current tree
STATUS = {
    'C01-1': ('obsolete', 'the bracket helper it patched was removed by the precedence rewrite d89efb3'),
    'C12-4': ('obsolete', '_regexp was rewritten by 66328f3'),
    'C17-4': ('obsolete', 'the text forms it relied on were replaced by d001810'),
    'C03-7': ('obsolete', 'its demonstration passes since e1c09b1 (the entry cell is re-read from the workbook)'),
    'C06-10': ('obsolete', 'its demonstration passes since 79f5947 (every emitted expression is checked against python\'s bracket limit)'),
    'C10-7': ('obsolete', 'since 01af400 a plain date reaches the class as a date-time: the comparison of plain dates it changed is no longer reached through the public API'),
    'C16-5': ('not-kept', 'demands more than the statement (1 ulp beyond 15 significant digits)'),
    'C11-7': ('outside-asserted-domain', 'dates under AVERAGE: the statement does not say whether a date is a numeric cell'),
    'C17-15': ('not-kept', 'demands more than the statement: whole numbers beyond 2**53 given as text come back as the nearest double instead of the exact integer - an Excel number is a double (15 digits), the statement does not promise exact integers'),
    'C15-13': ('outside-asserted-domain', 'DATE with a literal year of 1..1899: the statement says "1 January of year y"; Excel (and the unchanged tree) add 1900 to such years, the change does not - which of the two is meant is not fixed by the statement, the check asserts years 1900..9999 only'),
    'C09-12': ('changed-by-fix', 'since 30a138b a cell that holds an object is rejected at translation: the change now makes workbooks with array formulas untranslatable (C18 / C06) instead of putting an address into the text'),
}
rows = []
for sid in sorted(os.listdir(os.path.join(VERIF, 'seeded'))):
    d = os.path.join(VERIF, 'seeded', sid)
    if not os.path.isdir(d):
        continue
    notes = open(os.path.join(d, 'notes.md'), encoding='utf-8').read() if os.path.exists(os.path.join(d, 'notes.md')) else ''
    res = json.load(open(os.path.join(d, 'result.json'))) if os.path.exists(os.path.join(d, 'result.json')) else {}
    old = json.load(open(os.path.join(d, 'meta.json'))) if os.path.exists(os.path.join(d, 'meta.json')) else {}
    lines = [l.strip() for l in notes.splitlines() if l.strip()]
    title = re.sub(r'^#+\s*', '', lines[0]) if lines else sid
    needs = [l for l in lines if re.search(r'trigger|needed to|what is needed|manifest', l, re.I)]
    needs_text = ' '.join(needs)[:900] if needs else ' '.join(lines[1:4])[:900]
    checks = res.get('checks', {})
    caught = sorted(c for c, v in checks.items() if v.get('exit') == 1)
    missed = sorted(c for c, v in checks.items() if v.get('exit') == 0)
    errors = sorted(c for c, v in checks.items() if v.get('exit') not in (0, 1))
    meta = {
        'id': sid,
        'property': sid.split('-')[0],
        'wave': (int(sid.split('-')[1]) + 2) // 3,
        'source': 'independent sub-agent (given only the property record and a scratch worktree of /repo; from the second wave on also one-line summaries of the changes delivered before, so as not to repeat them)',
        'what': title,
        'needs_to_manifest': needs_text,
        'confirmed': {k: res.get(k) for k in ('applies', 'pinned_tests_pass', 'demo_fails_with_change', 'demo_passes_without', 'repo_head')},
        'ran': 'tools/seeded.py: scratch worktree of /repo HEAD, git apply patch.diff, pinned pytest command, demo.py with PYTHONPATH=<worktree> and '
               'with PYTHONPATH=/repo, ./check <ID> quick with VERIF_REPO=<worktree>; worktree removed afterwards',
        'caught_by': caught,
        'not_caught_by': missed,
        'check_errors': errors,
        'status': STATUS[sid][0] if sid in STATUS else old.get('status') if old.get('status') not in (None, 'not-confirmed') else ('kept' if res.get('applies') and res.get('pinned_tests_pass') and res.get('demo_fails_with_change') and res.get('demo_passes_without') else 'not-confirmed'),
        'comment': STATUS[sid][1] if sid in STATUS else old.get('comment', ''),
    }
    json.dump(meta, open(os.path.join(d, 'meta.json'), 'w'), indent=1, ensure_ascii=False)
    rows.append(meta)
with open(os.path.join(VERIF, 'seeded', 'README.md'), 'w', encoding='utf-8') as f:
    f.write('# Seeded changes and the checks that catch them\n\n'
            'Each directory holds one change written by an independent sub-agent (patch.diff, its demonstration demo.py, notes.md), '
            'meta.json and the last result.json of tools/seeded.py.  "caught by" = `./check <ID> quick` exits 1 with a VIOLATION line '
            'when VERIF_REPO points at a worktree with the change applied.\n\n'
            '| id | change | status | caught by | not caught by |\n|---|---|---|---|---|\n')
    for m in rows:
        f.write(f"| {m['id']} | {m['what'][:110].replace('|', '/')} | {m['status']} | {' '.join(m['caught_by']) or '-'} | {' '.join(m['not_caught_by']) or '-'} |\n")
    kept = [m for m in rows if m['status'] == 'kept']
    f.write(f"\n{len(kept)} kept changes; {sum(1 for m in kept if m['caught_by'])} caught by at least one check; "
            f"{sum(1 for m in kept if m['property'] in m['caught_by'])} caught by the check of their own property.\n")
print(len(rows))
