"""Rewrites section 10.5 of DESIGN.md from seeded/*/meta.json."""
import json
import os
import re

VERIF = os.path.dirname(os.path.dirname(os.path.abspath(__file__)))
rows = []
for sid in sorted(os.listdir(os.path.join(VERIF, 'seeded'))):
    f = os.path.join(VERIF, 'seeded', sid, 'meta.json')
    if os.path.exists(f):
        rows.append(json.load(open(f)))
props = sorted({m['property'] for m in rows})
nwaves = max(m['wave'] for m in rows)
lines = ['### 10.5 Sensitivity: seeded changes and the checks that catch them', '',
         f'{nwaves} waves of independent sub-agents (waves 1-4: 20 agents per wave, one per property; waves 5 and 6: ten properties each, together all',
         'twenty once more; each agent given only the property record and a scratch worktree; from the second wave on also one-line summaries of the',
         'changes delivered before, and a steer away from the kinds of slip used most - the fourth wave was sent to files outside the anchors, to',
         'regressions of well-meant bug fixes, to single functions and to call sequences; the fifth and sixth to *legal inputs a generator written by',
         'somebody else would probably not produce*: value domains, spellings, rarely given arguments, one-cell areas, many sheets) delivered',
         f'{len(rows)} changes that break a property while the pinned 44 tests (and, for nearly all, the 119 examples of `test/test.py`) still pass,',
         'each with a demonstration.  `tools/seeded.py` confirms every',
         'change (applies, pinned tests pass, demonstration fails with it and passes without it) and runs the quick tier of the checks',
         'against it; `seeded/<id>/meta.json` and `seeded/README.md` have the details.  Changes whose mechanism disappeared under a',
         'repository fix were re-based by hand where the slip still makes sense and marked obsolete where it does not.  The first run',
         'of the fourth wave against the checks as they stood caught 19 of 60, the first run of the fifth 11 of 27, the first run of the sixth 9 of 30; every miss was traced to a',
         'generator that did not reach the input (or the call sequence) - or, twice in wave 5, to an oracle that was too weak (C10: two spellings of',
         'one text satisfied every law while being unequal; C01: no assertion about numbers of 1e15 and more under &) - and the checks were extended;',
         'the table shows the state after that.', '',
         '| property | kept | caught by its own check | caught only by another check | not caught |', '|---|---|---|---|---|']
tot = [0, 0, 0, 0]
for p in props:
    ms = [m for m in rows if m['property'] == p and m['status'] == 'kept']
    own = [m for m in ms if p in m['caught_by']]
    other = [m for m in ms if p not in m['caught_by'] and m['caught_by']]
    none = [m for m in ms if not m['caught_by']]
    tot = [tot[0] + len(ms), tot[1] + len(own), tot[2] + len(other), tot[3] + len(none)]
    lines.append(f"| {p} | {len(ms)} | {len(own)} | " + (', '.join(f"{m['id']} ({' '.join(m['caught_by'])})" for m in other) or '-') + ' | ' +
                 (', '.join(m['id'] for m in none) or '-') + ' |')
lines.append(f'| all | {tot[0]} | {tot[1]} | {tot[2]} | {tot[3]} |')
lines.append('')
dropped = [m for m in rows if m['status'] != 'kept']
if dropped:
    lines.append('Not kept: ' + '; '.join(f"{m['id']} ({m['status']}{': ' + m['comment'] if m.get('comment') else ''})" for m in dropped) + '.')
    lines.append('')
lines += ['What the rounds taught (each item is a lane that now exists because a seeded change slipped through the first version of a check):',
          '',
          '* *state shared through the class or the process* (memo dictionaries, class-level override maps, caches keyed by formula text, area text, `repr`',
          '  or `hash`): independent-executor witnesses around every override (`wbk.eval_formulas`), a bystander executor in C04, a second translation as',
          '  the expectation in C08, two executors per class in C20, one fresh interpreter per shard plus shard replay, the same texts on a second sheet',
          '  (C01, C02, C11), one long-lived executor per operand (C16), colliding neighbours in one instance (C10);',
          '* *Parser histories*: one Parser walked over entries / retried after a failure / toggled / pointed at a file whose content changes (C06, C09, C19),',
          '  writes to one and the same file, entry cells that carry a value or come from a query (C03);',
          '* *inputs the first generators did not reach*: empty sheets, digit-only titles, astral characters, numbers beyond the doubles, 16-digit floats,',
          '  stale `<dimension>` records, integers beyond 2^53, mixed-case keys, runs of equal keys, trailing blank keys, binary XMATCH, two-column criteria',
          '  areas, re-shaped SUMIF sum ranges, criterion cells set through overrides, empty-text cells, failing expressions of every exception class,',
          '  cycles through IFERROR and rings of 100 cells, 400-cell reference chains in threads, more than 100 suspicious cells, month ends and the years',
          '  1900 / 1901, a faked clock for TODAY, tiny and huge magnitudes under %, quoted titles of 31 characters (timed in killable child processes);',
          '* *wave 4 (files outside the anchors, regressions of bug fixes, single functions, call sequences)*: texts with characters that mean',
          '  something elsewhere (@, braces, doubled quotes, _xlfn.) in literals, formats and titles; negative / signed / zero-padded / exponent',
          '  criterion numbers and literals; whole-column spellings under MATCH / SUMIF / lookups, also across sheets and under entry-point',
          '  translation; layouts that straddle Z / AA; digit-only and empty sheet titles, workbook-index prefixes, a second sheet qualifier;',
          '  zeros / FALSE / empty text as overrides over non-blank content, None overrides, plain dates; overrides in two consecutive calls,',
          '  whole-sheet reads directly after set_cells, Cell objects changed in place and handed over again; chart sheets, array formulas and',
          '  date-like criteria in the C09 pool with children in other time zones; harness-owned thread schedules; sparse sheets in the timed lane;',
          '* *waves 5 and 6 (legal but unlikely inputs)*: doubles of 2**53 .. 1e300 from overrides, literals and quotients (C01), the decade 1e15 .. 1e16',
          '  where the exponent form begins (C01, C17), wildcard and tilde characters in texts that are operands, not criteria (C01, C10), a cell against',
          '  the literal that spells the same text (C10), every Excel error value under IFERROR (C13), long-mantissa floats read back exactly and workbooks of',
          '  12+ sheets x 13 columns (C02), blank-only texts and python-float words among COUNT arguments (C11), blanks inside criteria and texts inside',
          '  sum ranges (C12), keys that differ in the 13th digit, computed (float) INDEX positions, a zero index outside the area (C14), line breaks under',
          '  SEARCH wildcards (C17), sign runs in front of a ROUND operand (C16); digit-only and quoted titles and blank cells as entries (C03), overrides',
          '  in two- and three-letter columns addressed by letters and digit-only titles under set_cells (C04), every pairing of range shapes under SUMIF and',
          '  long chains inside a function argument (C06), the file format\'s own `_xHHHH_` spelling as text (C07), a worksheet without cells and mixed',
          '  address spellings (C08), several whole-column areas in one formula, a blank workbook and a target file named without a directory (C09), a',
          '  blank months cell (C15), astral sheet titles and texts with `=` behind leading blanks (C18), `%` and braces in reported fragments and titles,',
          '  calls behind 8 000 characters of text (C19), arguments of an unusual kind in every position of every helper (C20);',
          '* *defects of the unchanged tree that wave 4 surfaced* (remarks of the authors, or found by the extended generators) are in 10.3 / Appendix C 24;',
          '* *harness faults found by seeded changes* are listed in Appendix C (items 9-14, 16-18).', '']
text = '\n'.join(lines)
p = os.path.join(VERIF, 'DESIGN.md')
s = open(p).read()
if '### 10.5 Sensitivity' in s:
    i = s.index('### 10.5 Sensitivity')
    j = s.index('## Appendix A')
    s = s[:i] + text + '\n\n' + s[j:]
else:
    s = s.replace('## Appendix A', text + '\n\n## Appendix A', 1)
open(p, 'w').write(s)
print(tot)
