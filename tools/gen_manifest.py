"""Regenerates MANIFEST.json from tools/manifest_data.py (single source of truth)."""
import json, os, sys
sys.path.insert(0, os.path.dirname(os.path.abspath(__file__)))
import manifest_data as md
here = os.path.dirname(os.path.dirname(os.path.abspath(__file__)))
checks = []
for pid, d in sorted(md.CHECKS.items()):
    checks.append({
        'property_id': pid,
        'quick_cmd': f'./check {pid} quick',
        'thorough_cmd': f'./check {pid} thorough',
        'evidence_file': f'evidence/{pid}.json',
        'replay_cmd_template': f'./check {pid} --replay {{path}}',
        'engine': 'vf',
        'level_claimed': {'category': d.get('category', 'exploration'), 'text': d['text'], 'design_ref': f'DESIGN.md section 4, {pid}'},
        'level_note': d['note'],
        'technique': d['technique'],
    })
m = {
    'version': 1,
    'setup_cmd': md.SETUP,
    'hooks': md.HOOKS,
    'engines': [{'name': 'vf', 'path': 'vf/', 'serves_properties': sorted(md.CHECKS), 'kind_free_text': md.ENGINE_TEXT}],
    'checks': checks,
    'notes': md.NOTES,
    'not_applicable': [{'property_id': p, 'reason': r} for p, r in sorted(md.NOT_APPLICABLE.items())],
}
json.dump(m, open(os.path.join(here, 'MANIFEST.json'), 'w'), indent=1)
print('checks:', len(checks), 'not_applicable:', len(md.NOT_APPLICABLE))
