SETUP = ("/venv/bin/python -c 'import hypothesis' 2>/dev/null || "
         "/venv/bin/pip install --no-index --find-links /opt/veriftools/wheels hypothesis; "
         "/venv/bin/python -c 'import hypothesis, openpyxl; print(hypothesis.__version__)'")
HOOKS = {
    'guard': 'EXCEL2PYCL_VERIF',
    'enable': 'no instrumentation is compiled into the repository; checks import /repo (VERIF_REPO) directly and set EXCEL2PYCL_VERIF=1 only as a marker',
    'baseline_off_cmd': 'cd /repo && /venv/bin/python -m pytest -ra -q -p no:cacheprovider --timeout=900 --continue-on-collection-errors',
    'source_commits': [],
    'add_only': True,
}
ENGINE_TEXT = ('property-based testing: Hypothesis strategies + exhaustive grids sharded over 16 processes, an independent '
               'reference evaluator / reference models as oracles, own collect-bucket-shrink driver (vf/run.py), '
               'known-findings attribution (vf/findings.py)')
NOTES = ('Every check: ./check <ID> quick|thorough, deterministic in VERIF_SEED, imports the working tree of /repo '
         '(override with VERIF_REPO). Exit 2 = harness error, never a verdict. known_findings.txt lists genuine defects '
         '(open / fixed); regress/<ID>/ is the replay corpus.')
NOT_APPLICABLE = {
    # filled in below as long as a property has no registered check yet
}
CHECKS = {
    'C10': {
        'text': 'exhaustive grid of ~25k ordered operand pairs (numbers incl. fractions/signs, texts incl. numeric-looking, dates/date-times, blank) x 6 operators x both orders through overrides, plus samples as workbook constants and literals and Hypothesis-drawn doubles/texts; exact rational oracle for numbers, the algebraic laws for every same-kind pair',
        'note': 'trusted: fractions.Fraction, datetime, openpyxl writer; text collation is only checked against the laws',
        'technique': 'exhaustive grid + Hypothesis-drawn pairs against exact rational comparison and algebraic laws',
    },
}
ALL = ['C%02d' % i for i in range(1, 21)]
for p in ALL:
    if p not in CHECKS and p not in NOT_APPLICABLE:
        NOT_APPLICABLE[p] = 'check not built yet in this session (planned in DESIGN.md section 4); will be claimed once registered'
