SETUP = ("/venv/bin/python -c 'import hypothesis' 2>/dev/null || "
         "/venv/bin/pip install --no-index --find-links /opt/veriftools/wheels hypothesis; "
         "/venv/bin/python -c 'import hypothesis, openpyxl; print(hypothesis.__version__)'")
HOOKS = {
    'guard': 'EXCEL2PYCL_VERIF',
    'enable': 'no instrumentation is compiled into the repository; checks import /repo (VERIF_REPO) directly and set EXCEL2PYCL_VERIF=1 only as a marker',
    'baseline_off_cmd': 'cd /repo && /venv/bin/python -m pytest -ra -q -p no:cacheprovider --timeout=900 --continue-on-collection-errors',
    'source_commits': [],
    'add_only': True,
}
ENGINE_TEXT = ('property-based testing: Hypothesis strategies (incl. stateful machines) + exhaustive grids + mutation fuzzing, one fresh process per shard on 16 cores, an independent '
               'reference evaluator / reference models as oracles, own collect-bucket-shrink driver (vf/run.py), '
               'known-findings attribution (vf/findings.py)')
NOTES = ('Every check: ./check <ID> quick|thorough, deterministic in VERIF_SEED, imports the working tree of /repo '
         '(override with VERIF_REPO). Exit 2 = harness error, never a verdict. known_findings.txt lists genuine defects '
         '(open / fixed); regress/<ID>/ is the replay corpus.')
NOT_APPLICABLE = {
    # filled in below as long as a property has no registered check yet
}
CHECKS = {
    'C01': {
        'text': 'every operator chain of <=3 operators over distinct primes with one decoration (-,+,%) and one parenthesis pair (exhaustive in the thorough tier), Hypothesis typed expression trees over literals and references fed by workbook constants / overrides / blanks, and a numeric-literal grid, each evaluated through Parser+Executor and compared with an independent precedence-aware evaluator; text forms under & (booleans, blanks, quotients); independent-executor witnesses around every override; lane big: doubles of 2**53..1e300 from overrides, literals, quotients and stored whole numbers under & (Excel\'s exponent form), +1-1, /2*2; wildcard / tilde characters in operand texts',
        'note': 'trusted: vf/ref/formula.py (own Pratt parser + evaluator written from the statement), IEEE doubles, tolerance 1e-12; text forms under & asserted for booleans, blanks and numbers without exponent form; arithmetic on stored whole numbers beyond 2**53 not asserted',
        'technique': 'exhaustive small-bound enumeration + Hypothesis typed ASTs vs reference evaluator (differential)',
    },
    'C10': {
        'text': 'exhaustive grid of ~25k ordered operand pairs (numbers incl. fractions/signs, texts incl. numeric-looking, dates/date-times, blank) x 6 operators x both orders through overrides, integers beyond 2^53 that collapse to one double, 0 / FALSE / blank against the same partner inside one instance, plus samples as workbook constants and literals and Hypothesis-drawn doubles/texts; exact rational oracle for numbers, the algebraic laws for every same-kind pair; lane mixed: a cell against a literal (texts with ? * ~ included), identical texts must be equal',
        'note': 'trusted: fractions.Fraction, datetime, openpyxl writer; text collation is only checked against the laws',
        'technique': 'exhaustive grid + Hypothesis-drawn pairs against exact rational comparison and algebraic laws',
    },
    'C11': {
        'text': 'Hypothesis-generated cell blocks (all content kinds) and argument lists (areas, whole columns, other sheets, cells, literals, re-split areas, embedded calls) for SUM/AVERAGE/MIN/MAX/COUNT/COUNTBLANK/AND/OR, the same texts on a second sheet, a data-only third sheet whose areas reach beyond its used range, contents planted through set_cells after translation (also into blank cells and below whole columns; every second executor has a past of other overrides and evaluations), totals over a column of row-subtotal formulas, compared with an independent fold over the generator\'s content map; blank-only texts in areas, words that python\'s float() accepts among the arguments of COUNT',
        'note': 'trusted: the generator\'s content map and fold (vf/props/c11.py); dates only under COUNT/COUNTBLANK, AND/OR without text/blank, empty AVERAGE/MIN/MAX not asserted',
        'technique': 'Hypothesis structured generation vs independent fold (reference model) + metamorphic re-splitting',
    },
    'C12': {
        'text': 'Hypothesis-generated criteria columns / target columns / criterion forms (plain, operator-prefixed, &-assembled, wildcard) for SUMIF/SUMIFS/COUNTIFS/AVERAGEIFS incl. misaligned ranges, two-column areas, SUMIF sum ranges of another size or orientation, criterion cells supplied through overrides, mixed ?* runs, compared with a select-then-fold oracle with its own wildcard matcher; blanks around criterion numbers and inside text criteria, texts inside SUMIF / SUMIFS sum ranges',
        'note': 'trusted: vf/props/c12.py oracle; blanks under numeric criteria, numbers under patterns, date criteria are outside the asserted domain',
        'technique': 'Hypothesis structured generation vs select-then-fold reference model',
    },
    'C13': {
        'text': 'Hypothesis nests of IF/IFS/IFERROR up to depth 5 (conditions that fail included), bare and embedded in operators/functions, evaluated under every truth assignment (true/zero/blank/5) of their condition cells through overrides and compared with a lazy reference evaluator (untaken failing branches and conditions must not surface; failures of every kind: division by zero, error-valued cell, cell whose own formula raises, date function of a text, ranges of different sizes, lookup outside the table, text that is no number; #-texts that are no error values); every Excel error value as a failing cell',
        'note': 'trusted: vf/ref/formula.py lazy semantics; how error values travel through other operators is not asserted',
        'technique': 'Hypothesis ASTs x exhaustive truth assignments vs lazy reference evaluator',
    },
    'C14': {
        'text': 'Hypothesis tables (ascending/unsorted/duplicate/text/blank keys, width 1-4) with VLOOKUP exact/approximate/omitted, MATCH 0/1/omitted, XMATCH from start/end and binary over ascending keys, mixed-case text keys, INDEX over every (r,c) around the area, INDEX(MATCH), COLUMN, the same unqualified texts on a twin sheet with other payload, whole-column spellings of the key column / table and keys planted below the data through the executor (positions are row numbers); ADDRESS exhaustively over all 16384 columns x sampled rows; oracle = independent linear search / direct indexing / bijective base-26; keys that differ only in the 13th digit / at 1e-13, computed (float) INDEX positions, a zero index whose partner lies outside the area; VLOOKUP column numbers and ADDRESS coordinates written as computations (4/2)',
        'note': 'trusted: vf/props/c14.py oracles; approximate matching only on ascending numeric keys; 0-index INDEX and binary XMATCH modes not asserted',
        'technique': 'Hypothesis + boundary construction vs reference search; exhaustive ADDRESS sweep',
    },
    'C15': {
        'text': 'grids through overrides: DATE(y,m,d) over 6 years x months -30..40 x days -800..800 with YEAR/MONTH/DAY inverses, EDATE/EOMONTH over every day of 2019-2024 x offsets -60..60, DATEDIF D/M/Y/YM targeted at anniversaries, NETWORKDAYS both orders with seeded holiday sets, every month end as EDATE / EOMONTH start, years 1900 / 1901, TODAY bracketed by two clock reads and followed on one long-lived executor while a faked local date moves; oracle = datetime/calendar arithmetic (quick tier strides the grids, thorough enumerates them); DATE parts handed over as the floats a computation gives, a blank months cell under EDATE / EOMONTH',
        'note': 'trusted: python datetime/calendar; years 1904..9999; DATEDIF with start > end not asserted',
        'technique': 'exhaustive grid enumeration vs datetime/calendar reference',
    },
    'C16': {
        'text': 'decimal grid sign x 9 integer parts x all four-digit fractions x digits -3..6 x ROUND/ROUNDUP/ROUNDDOWN (+1-argument forms, x%) through overrides on one long-lived executor per operand (quick: every tie / every fraction ending in 0 or 5 / stride-37 background), samples as literals and constants, Hypothesis decimals up to 15 significant digits; oracle = decimal.quantize; even runs of minus signs in front of the operand',
        'note': 'trusted: python decimal; operands are the doubles nearest to <=15-digit decimal texts',
        'technique': 'exhaustive decimal grid + Hypothesis decimals vs decimal.Decimal.quantize',
    },
    'C17': {
        'text': 'Hypothesis texts over a mixed-case alphabet with wildcard and regex-special characters (as constants, literals, overrides) x positions/counts around the length for LEFT/RIGHT/MID, the rebuild identity, & / CONCATENATE (texts, numbers, quotients, booleans), SEARCH (plain/wildcard/escaped/regex-special needles, start positions), VALUE; oracle = slicing, own wildcard prefix matcher, Decimal; texts with a line break under SEARCH wildcards, numbers of the decade 1e15..1e17 under & / CONCATENATE; LEFT / RIGHT / MID counts and SEARCH start positions written as computations',
        'note': 'trusted: vf/props/c17.py oracles; SEARCH start asserted for 1..len, text form of numbers only for ints / short decimals',
        'technique': 'Hypothesis structured generation vs substring-algebra reference + round-trip identity',
    },
    'C02': {
        'text': 'Hypothesis workbooks of 2-4 coordinate-coded sheets (titles from identifier / unicode / cell-like / spaces / punctuation / leading-digit / ! / apostrophe classes) x reference forms ($-marks on any component; no / unquoted / quoted prefix; cell, column range, row range, rectangle, whole column(s); far cells up to XFD / row 99 999) x positions (bare, SUM/COUNT/MAX, INDEX, VLOOKUP, MATCH, SUMIF(S)/COUNTIFS/AVERAGEIFS, COLUMN), whole-file and entry-point translation; sheets without any cell between the others, digit-only titles that differ from the sheet\'s own index, the same unqualified text placed on two sheets and the same area text once per sheet; oracle = the generator\'s own coordinate map; a missing title must be rejected; enumerated lanes: long-mantissa floats read back exactly through every reference form (cell and override), workbooks of 12 / 13 / 23 sheets x 13 columns (cells, areas, overrides)',
        'note': 'trusted: the coordinate code 1_000_003*sheet+1_009*col+row and vf/props/c02.py fold; reversed areas and whole-row references are not generated; nesting of a bare area result not asserted',
        'technique': 'Hypothesis structured generation vs coordinate-map reference model',
    },
    'C03': {
        'text': 'Hypothesis dependency graphs (3-25 formula cells over 1-3 sheets; edges through cells, overlapping ranges, whole columns, cross-sheet references, shared sub-expressions, IF branches, INDEX) with every cell taken as entry in turn: members of the entry-point class vs the generator\'s closure, entry-point value == whole-file value == reference evaluator; cyclic variants (self loop, 2-cycle, long cycle, through a range, an untaken IF branch, the guarded or fallback argument of IFERROR, inside a function; rings of 1..100 cells built from +, SUM, IF, IFERROR) must raise E2PyclParserException whole-file and for every entry on or upstream of the cycle, and entries that avoid the cycle must still translate',
        'note': 'trusted: generator graph + vf/ref/formula.py; formulas are total numeric expressions; blank cells inside a referenced area need not be members',
        'technique': 'Hypothesis graph generation x exhaustive entry choice; differential (slice vs whole vs reference) + closure model',
    },
    'C04': {
        'text': 'Hypothesis RuleBasedStateMachine: generated workbook (constants, formulas incl. an erroring cell and its dependants, blanks, 1-2 sheets) + histories of <= 12 set_cells batches / queries (same cell twice in a batch or again later, formula cells, blanks, cells beyond the used range, other sheets, A1/numeric/mixed addressing, int/float/text/bool/date values); at every query every cell and the whole-sheet grid are compared with a fresh translation of the edited workbook, a bystander executor on the same class must keep seeing the plain workbook and its sizes, values are re-written with an equal value of another type (1 / TRUE), cells are hashed before they are handed over, whole-column observers (SUM / COUNT / MAX / SUMIF(S) / COUNTIFS over A:A, A:C, T!A:B) with cells set below the last row of the workbook; histories with repeated writes are replayed in child processes under other PYTHONHASHSEED values',
        'note': 'trusted: dict model cell -> last value, openpyxl writer; override values never start with "=", are not None/empty text/integral floats; whole-column references only under observers that ignore trailing blank rows',
        'technique': 'Hypothesis stateful (model-based) testing; metamorphic oracle override == edit-and-retranslate; hash-seed matrix',
    },
    'C08': {
        'text': 'Hypothesis RuleBasedStateMachine: generated workbook (total formulas, 1-3 sheets, sparse layout, optional override set) + histories of <= 30 get_cell / get_cells / get_sheet calls with numeric, A1-style, title-or-index addressing, fresh and re-used Cell objects, a second Executor on the same class queried in between (expectation from a second translation), digit-only sheet titles, overrides replaced in the middle of the history (same cell again, equal value of another type, cells beyond the used range, the very Cell objects that queries returned) with the value table recomputed from the overrides that hold then; every returned value vs a value table computed once with one fresh Executor per cell and cross-checked against the reference evaluator; grid shape = used range extended by overrides; sheet sizes and overrides unchanged by queries',
        'note': 'trusted: value table + vf/ref/formula.py; formulas from a total sub-grammar; COLUMN over multi-column areas excluded',
        'technique': 'Hypothesis stateful (model-based) testing vs value-table model; API/addressing metamorphic agreement',
    },
    'C09': {
        'text': '(a) Hypothesis RuleBasedStateMachine on one Parser over a pool of workbooks (differing in one constant, permuted sheets, a suspicious cell, a malformed formula): set path / set-replace-clear entry / enable-disable safety / get / write, each get/write compared with a fresh Parser holding the same final settings, repeated gets identical, written file == returned text; (b) sha256 of the text for pool workbook x entry across child processes under several PYTHONHASHSEED values, cold and after other translations; (c) cold child processes with 8 barrier-released threads (switch interval 1 us) translating concurrently, incl. a 400-cell reference chain that exceeds the default interpreter stack; (d) 2-3 translations in threads under a schedule drawn by the harness (profile hook per thread, every call into a package function is a switch point, segments cut at fractions of the measured call counts; the job is the replayable input); writes go to one and the same file',
        'note': 'trusted: a fresh Parser as reference for a cached one (the relation the property states); lane (c) only samples interleavings; lane (d) owns the schedule at call granularity (a switch inside one function body is not generated)',
        'technique': 'Hypothesis stateful testing vs fresh-instance reference; process / hash-seed / thread differential on sha256; generated thread schedules',
    },
    'C18': {
        'text': 'Hypothesis workbooks of 1-5 sheets (some empty), sparse cells with empty rows/columns inside the used range, first used cell away from A1, far cells (row <= 3000, column <= 400), stale <dimension> records, values int / float / bool / text (printable + unicode) / date / date-time / formulas / ArrayFormula; every planted coordinate, its eight neighbours, the used-range corners and sampled blanks queried through Executor.get_cell on the class object and on the file-loaded class; get_titles / get_sheets_size vs the model, asked again of new instances after another executor on the class was given a cell beyond the used range; chart sheets among the worksheets; COLUMN(area) formulas next to constants; one Parser that kept its entry cell while it was moved from a decoy workbook (same title at another index) to the generated one',
        'note': 'trusted: generator cell map normalised by xlsx storage rules, cross-checked against openpyxl\'s ordinary reader (disagreement = harness error); values restricted to what survives openpyxl itself',
        'technique': 'Hypothesis structured generation vs cell-map reference model (round trip through xlsx)',
    },
    'C19': {
        'text': 'Hypothesis workbooks of 1-3 sheets with 0-6 planted suspicious cells (lower/mixed-case identifier immediately followed by a parenthesised list; as constants and inside formulas) and 0-10 innocent cells (upper-case Excel calls, parentheses without identifier, "print (1)", numbers, dates) at arbitrary (sheet, column, row), translated with the safety check on and off: rejected iff something is planted, listing is a bijection with the planted cells at their true title / A1 address with their fragments, no rejection when disabled; on one long-lived Parser the gate follows toggling and a file whose content changes under the same path',
        'note': 'trusted: the planted positions and an own call-syntax scanner; cells mixing lower- and upper-case calls and fragments spanning newlines are not planted; exact key format not asserted',
        'technique': 'Hypothesis structured generation vs planted-positions oracle',
    },
    'C05': {
        'text': 'Hypothesis seed formulas over the whole supported grammar (operators, every function shape of Appendix A incl. INDEX area lists / area expressions, omitted ROUNDUP digit) expanded into families: whitespace variants (spaces / tabs / newlines after =, between any two tokens, after the last), separator variants (, / ; per separator), 1-2 token-level mutations (delete / insert / duplicate / swap / replace / append / prepend, unbalanced brackets, doubled operators, extra / dropped arguments, adjacent operands, a complete formula followed by a tail), 1-2 character-level mutations (incl. doubled / unbalanced quotes); every function x argument counts 0..max+2 x argument kinds; random token soups.  Each text goes through Parser (entry-point cell) and, when accepted, is evaluated.  Oracle: own lexer + own context-free recogniser of the supported grammar (outside => E2PyclParserException; never a foreign exception), the reference evaluator on the whole text for accepted texts in its domain, and equality of outcome class and value across variants that lex to the same token list',
        'note': 'trusted: the grammar transcription and lexer in vf/props/c05.py, vf/ref/formula.py; a text inside the grammar that the ordered-choice parser rejects with the parser exception is counted, not asserted; texts whose lexing the transcription does not pin down are only checked for foreign exceptions',
        'technique': 'Hypothesis grammar-based generation + token/character mutation fuzzing vs independent recogniser (differential accept/reject), reference evaluator and metamorphic whitespace / separator relations',
    },
    'C06': {
        'text': 'Hypothesis workbooks (1-4 sheets, titles and texts from hostile alphabets: quotes, backslashes, newlines, braces, format fields, %, unicode; constants of every type openpyxl writes incl. huge / tiny / infinite numbers, dates, times, durations, error strings, ArrayFormula; valid formulas of the whole supported grammar; in the adversarial lane malformed / unsupported / truncated / token-soup formulas, missing sheets, row-0 and over-long references, cycles) translated whole-file and through every formula cell as entry point; a list of ~130 hand-picked hostile formulas; 17 size-parameterised families (bracket depth 40, nested SUM / IF / mixed calls, operator / sign / & chains, argument counts, forward and backward reference chains across cells, long literals, wide areas).  Outcome must be a library exception or text that compiles, loads, reports the titles and sizes of the workbook, has one callable member per non-blank cell, evaluates without NameError / SyntaxError, gives the stored value for constants and the same outcome through Executor(class_file=...) and Executor(class_object=...); one Parser walked over the entry cells (retry after a failure, write_translation to one file); a deterministic work counter (calls into the repository under sys.setprofile) must grow by less than x1.7 per size step; seven families whose work sits inside regular expressions (quoted titles up to 31 characters, runs of spaces / quotes / $ / letters) are timed (processor time) in killable child processes',
        'note': 'trusted: python compile / exec, openpyxl as the judge of what a file holds; evaluation errors of a formula are not judged (only NameError / SyntaxError / UnboundLocalError); an alarm that fires is inconclusive - non-termination is represented only by the work-growth bound on the families',
        'technique': 'Hypothesis structured + adversarial workbook fuzzing with outcome classification; size-parameterised families with a deterministic work counter',
    },
    'C07': {
        'text': 'Hypothesis hostile strings (alphabet weighted towards quotes, backslashes, newlines, #, braces, %, call syntax; ~75 payloads that call a canary planted in builtins, incl. triple quotes, escapes, line-start injections), each with a unique marker, placed in constant cells, plain literals (alone, under &, LEFT / MID / IF / CONCATENATE / IFERROR / RIGHT), other argument positions, criteria (plain, operator-prefixed, &-assembled) of COUNTIFS / SUMIF / SUMIFS / AVERAGEIFS, wildcard positions and sheet titles; every payload once in every placement; safety check on and off.  Oracle: the canary is never called at translation, load or evaluation; the returned text parses and every marker occurrence lies inside a string constant of its AST; without steering characters the AST equals (up to constants) the AST for a harmless string of the same length; constants and plain literals evaluate to exactly the original string',
        'note': 'trusted: python ast spans, the canary in builtins, openpyxl as judge of what the file holds; strings in formula literals carry no double quote / carriage return; what a criterion or pattern selects is C12 / C17',
        'technique': 'Hypothesis + payload dictionary fuzzing with a side-effect canary, AST audit of the generated module, differential (hostile vs harmless twin) and round-trip oracles',
    },
    'C20': {
        'text': 'names: both classes expose the same helpers with the same parameter lists (and the same EmptyCell members); calls: Hypothesis argument lists for each of the ~55 helpers (numbers, numeric / wildcard / regex-special / date-like texts, dates, blanks, error strings, flat / nested lists, matrices, aligned ranges, criterion callables, failing thunks) applied to a generated class and to class Hand(AbstractExcelInPython) - same value or same exception type; hand: workbooks with formulas of the whole supported grammar whose generated per-cell members are moved into a hand-written subclass of the base - every cell evaluates to the same outcome through Executor on both classes',
        'note': 'trusted: == after mapping each class\'s EmptyCell to one blank value, exceptions by type name; _today compared within a one-day window',
        'technique': 'Hypothesis differential testing of the two runtime copies (per helper and end-to-end through generated members) + introspective set comparison',
    },
}
ALL = ['C%02d' % i for i in range(1, 21)]
for p in ALL:
    if p not in CHECKS and p not in NOT_APPLICABLE:
        NOT_APPLICABLE[p] = 'check not built yet in this session (planned in DESIGN.md section 4); will be claimed once registered'
