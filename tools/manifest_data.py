SETUP = ("/venv/bin/python -c 'import hypothesis' 2>/dev/null || "
         "/venv/bin/pip install --no-index --find-links /opt/veriftools/wheels hypothesis; "
         "/venv/bin/python -c 'import hypothesis, openpyxl; print(hypothesis.__version__)'")
HOOKS = {
    'guard': 'EXCEL2PYCL_VERIF',
    'enable': 'no instrumentation is compiled into the repository; checks import /repo (VERIF_REPO) directly and set EXCEL2PYCL_VERIF=1 only as a marker',
    'baseline_off_cmd': 'cd /repo && /venv/bin/python -m pytest -ra -q -p no:cacheprovider --timeout=900 --continue-on-collection-errors',
    'source_commits': [],
    'add_only': True,
}
ENGINE_TEXT = ('property-based testing: Hypothesis strategies + exhaustive grids sharded over 16 processes, an independent '
               'reference evaluator / reference models as oracles, own collect-bucket-shrink driver (vf/run.py), '
               'known-findings attribution (vf/findings.py)')
NOTES = ('Every check: ./check <ID> quick|thorough, deterministic in VERIF_SEED, imports the working tree of /repo '
         '(override with VERIF_REPO). Exit 2 = harness error, never a verdict. known_findings.txt lists genuine defects '
         '(open / fixed); regress/<ID>/ is the replay corpus.')
NOT_APPLICABLE = {
    # filled in below as long as a property has no registered check yet
}
CHECKS = {
    'C01': {
        'text': 'every operator chain of <=3 operators over distinct primes with one decoration (-,+,%) and one parenthesis pair (exhaustive in the thorough tier), Hypothesis typed expression trees over literals and references fed by workbook constants / overrides / blanks, and a numeric-literal grid, each evaluated through Parser+Executor and compared with an independent precedence-aware evaluator; two open findings (misgrouped & / comparison, %) are attributed by structural trigger',
        'note': 'trusted: vf/ref/formula.py (own Pratt parser + evaluator written from the statement), IEEE doubles, tolerance 1e-12; text/bool/blank text forms outside the asserted domain',
        'technique': 'exhaustive small-bound enumeration + Hypothesis typed ASTs vs reference evaluator (differential)',
    },
    'C10': {
        'text': 'exhaustive grid of ~25k ordered operand pairs (numbers incl. fractions/signs, texts incl. numeric-looking, dates/date-times, blank) x 6 operators x both orders through overrides, plus samples as workbook constants and literals and Hypothesis-drawn doubles/texts; exact rational oracle for numbers, the algebraic laws for every same-kind pair',
        'note': 'trusted: fractions.Fraction, datetime, openpyxl writer; text collation is only checked against the laws',
        'technique': 'exhaustive grid + Hypothesis-drawn pairs against exact rational comparison and algebraic laws',
    },
    'C11': {
        'text': 'Hypothesis-generated cell blocks (all content kinds) and argument lists (areas, whole columns, other sheets, cells, literals, re-split areas, embedded calls) for SUM/AVERAGE/MIN/MAX/COUNT/COUNTBLANK/AND/OR, compared with an independent fold over the generator\'s content map',
        'note': 'trusted: the generator\'s content map and fold (vf/props/c11.py); dates only under COUNT/COUNTBLANK, AND/OR without text/blank, empty AVERAGE/MIN/MAX not asserted',
        'technique': 'Hypothesis structured generation vs independent fold (reference model) + metamorphic re-splitting',
    },
    'C12': {
        'text': 'Hypothesis-generated criteria columns / target columns / criterion forms (plain, operator-prefixed, &-assembled, wildcard) for SUMIF/SUMIFS/COUNTIFS/AVERAGEIFS incl. misaligned ranges, compared with a select-then-fold oracle with its own wildcard matcher; three open findings in the criterion parser are attributed by criterion form',
        'note': 'trusted: vf/props/c12.py oracle; blanks under numeric criteria, numbers under patterns, date criteria are outside the asserted domain',
        'technique': 'Hypothesis structured generation vs select-then-fold reference model',
    },
    'C13': {
        'text': 'Hypothesis nests of IF/IFS/IFERROR up to depth 3, bare and embedded in operators/functions, evaluated under every truth assignment (true/zero/blank/5) of their condition cells through overrides and compared with a lazy reference evaluator (untaken failing branches must not surface)',
        'note': 'trusted: vf/ref/formula.py lazy semantics; how error values travel through other operators is not asserted',
        'technique': 'Hypothesis ASTs x exhaustive truth assignments vs lazy reference evaluator',
    },
    'C14': {
        'text': 'Hypothesis tables (ascending/unsorted/duplicate/text/blank keys, width 1-4) with VLOOKUP exact/approximate/omitted, MATCH 0/1/omitted, XMATCH from start/end, INDEX over every (r,c) around the area, INDEX(MATCH), COLUMN; ADDRESS exhaustively over all 16384 columns x sampled rows; oracle = independent linear search / direct indexing / bijective base-26',
        'note': 'trusted: vf/props/c14.py oracles; approximate matching only on ascending numeric keys; 0-index INDEX and binary XMATCH modes not asserted',
        'technique': 'Hypothesis + boundary construction vs reference search; exhaustive ADDRESS sweep',
    },
    'C15': {
        'text': 'grids through overrides: DATE(y,m,d) over 6 years x months -30..40 x days -800..800 with YEAR/MONTH/DAY inverses, EDATE/EOMONTH over every day of 2019-2024 x offsets -60..60, DATEDIF D/M/Y/YM targeted at anniversaries, NETWORKDAYS both orders with seeded holiday sets, TODAY bracketed by two clock reads; oracle = datetime/calendar arithmetic (quick tier strides the grids, thorough enumerates them)',
        'note': 'trusted: python datetime/calendar; years 1904..9999; DATEDIF with start > end not asserted',
        'technique': 'exhaustive grid enumeration vs datetime/calendar reference',
    },
    'C16': {
        'text': 'decimal grid sign x 9 integer parts x all four-digit fractions x digits -3..6 x ROUND/ROUNDUP/ROUNDDOWN (+1-argument forms, x%) through overrides (quick: every tie / every fraction ending in 0 or 5 / stride-37 background), samples as literals and constants, Hypothesis decimals up to 15 significant digits; oracle = decimal.quantize',
        'note': 'trusted: python decimal; operands are the doubles nearest to <=15-digit decimal texts',
        'technique': 'exhaustive decimal grid + Hypothesis decimals vs decimal.Decimal.quantize',
    },
    'C17': {
        'text': 'Hypothesis texts over a mixed-case alphabet with wildcard and regex-special characters (as constants, literals, overrides) x positions/counts around the length for LEFT/RIGHT/MID, the rebuild identity, & / CONCATENATE, SEARCH (plain/wildcard/escaped/regex-special needles, start positions), VALUE; oracle = slicing, own wildcard prefix matcher, Decimal',
        'note': 'trusted: vf/props/c17.py oracles; SEARCH start asserted for 1..len, text form of numbers only for ints / short decimals',
        'technique': 'Hypothesis structured generation vs substring-algebra reference + round-trip identity',
    },
}
ALL = ['C%02d' % i for i in range(1, 21)]
for p in ALL:
    if p not in CHECKS and p not in NOT_APPLICABLE:
        NOT_APPLICABLE[p] = 'check not built yet in this session (planned in DESIGN.md section 4); will be claimed once registered'
