"""Dev helper: evaluate formulas quickly.  usage: probe.py '=1+2' '=A1&"x"' ...  (cells: A1=5 A2=7 A3='abc' B1..)"""
import sys, os
sys.path.insert(0, os.path.dirname(os.path.dirname(os.path.abspath(__file__))))
from vf import wbk
cells = {'A1': 5, 'A2': 7, 'A3': 'abc', 'B1': 1.5, 'B2': True}
for f in sys.argv[1:]:
    o = wbk.eval_formulas([{'title': 'S', 'cells': cells}], [f], first_col=4)[0]
    src = ''
    if os.environ.get('SRC'):
        m = {'sheets': [{'title': 'S', 'cells': {**cells, 'D1': f}}]}
        t = wbk.translate_model(m, entry=('S', 'D', '1'))
        if t[0] == 'value':
            src = [l for l in t[1].src.split('\n') if 'def _0_3_0' in l or l.strip().startswith('return') and False]
            i = t[1].src.index('def _0_3_0(self)')
            src = t[1].src[i:i + 400].split('\n')[1].strip()
    print(f, '->', wbk.show_outcome(o), src)
